package main

// pkgvars — which PACKAGE-LEVEL VARIABLES (of this or of any imported package) a set of functions refers to,
// with their types and the way each reference uses the variable. Added for C10 (seeded defect C10-m9: a
// package-level sync.Pool of encode buffers in internal/http_api made concurrently served requests overwrite
// each other's bodies). The Lean model answers a request as a function of (options, broker, request); that
// two requests served at the same time cannot influence each other's answer is carried by this fact ("the
// response path refers to no shared mutable package-level state") together with the concurrency leg of the
// harness.
//
//   {"kind":"pkgvars","name":N,"dir":D,
//    "funcs":[...]            root functions / methods ("F", "(*T).M"); or
//    "files":[...]            every function declared in these files of the package is a root;
//    "closure":"package"|"files"|"none"}
//        package: follow static calls to every function or method declared in the same package (function
//                 literals belong to the function that contains them);
//        files:   follow only calls to functions declared in the listed files; none: roots only.
//        Calls through function values and interface methods are not followed — list the possible targets as roots.
//
//   → def N : List (String × String × String × String × String)
//         rows (root, via, variable, type, use), sorted, without duplicates:
//         root      the root function the reference is reachable from
//         via       the function whose body contains the reference (= root, or a function reached from it)
//         variable  "<package name>.<identifier>"
//         type      the variable's Go type (package-name qualified, as go/types prints it)
//         use       value | index | range | field:<f> | call:<method> | assign | addr
//                   (assign: the variable, one of its elements or fields is the target of an assignment or ++/--;
//                    addr: its address is taken; call: a method is called on it — with a pointer receiver this may
//                    mutate it)
//     def NMutators : List (String × String × String)
//         (variable, function, use) for every assign / addr / call use, ANYWHERE in package D, of the variables
//         of package D that occur in N — "who else writes the tables these functions read".
//
// The extractor resolves identifiers with go/types (never by name), so a local variable or a field that
// shadows a package-level name is not listed, and an alias import does not hide one.

import (
	"fmt"
	"go/ast"
	"go/token"
	"go/types"
	"path/filepath"
	"sort"
	"strings"

	"golang.org/x/tools/go/packages"
)

func init() { register("pkgvars", kindPkgVars) }

func pkgVarFuncName(fd *ast.FuncDecl) string {
	if fd.Recv != nil && len(fd.Recv.List) == 1 {
		t := fd.Recv.List[0].Type
		star := ""
		if s, ok := t.(*ast.StarExpr); ok {
			t, star = s.X, "*"
		}
		if ix, ok := t.(*ast.IndexExpr); ok { // generic receiver
			t = ix.X
		}
		if id, ok := t.(*ast.Ident); ok {
			return "(" + star + id.Name + ")." + fd.Name.Name
		}
	}
	return fd.Name.Name
}

func isPkgLevelVar(obj types.Object) (*types.Var, bool) {
	v, ok := obj.(*types.Var)
	if !ok || v.IsField() || v.Pkg() == nil {
		return nil, false
	}
	return v, v.Parent() == v.Pkg().Scope()
}

type pkgVarUse struct {
	v   *types.Var
	use string
}

// pkgVarUses lists the package-level variable references inside node (a function body), classified.
func pkgVarUses(p *packages.Package, body ast.Node) []pkgVarUse {
	var out []pkgVarUse
	var stack []ast.Node
	inLhs := func(as *ast.AssignStmt, e ast.Expr) bool {
		for _, l := range as.Lhs {
			if l == e {
				return true
			}
		}
		return false
	}
	ast.Inspect(body, func(n ast.Node) bool {
		if n == nil {
			stack = stack[:len(stack)-1]
			return true
		}
		stack = append(stack, n)
		id, ok := n.(*ast.Ident)
		if !ok {
			return true
		}
		v, ok := isPkgLevelVar(p.TypesInfo.Uses[id])
		if !ok {
			return true
		}
		// the expression that denotes the variable: the identifier, or `pkg.Ident`
		up := func(k int) ast.Node {
			if len(stack)-1-k >= 0 {
				return stack[len(stack)-1-k]
			}
			return nil
		}
		var e ast.Expr = id
		k := 1
		if sel, ok := up(1).(*ast.SelectorExpr); ok && sel.Sel == id {
			e, k = sel, 2
		}
		use := "value"
		switch par := up(k).(type) {
		case *ast.SelectorExpr:
			if par.X == e {
				use = "field:" + par.Sel.Name
				switch g := up(k + 1).(type) {
				case *ast.CallExpr:
					if g.Fun == par {
						use = "call:" + par.Sel.Name
					}
				case *ast.AssignStmt:
					if inLhs(g, par) {
						use = "assign"
					}
				case *ast.IncDecStmt:
					use = "assign"
				case *ast.UnaryExpr:
					if g.Op == token.AND {
						use = "addr"
					}
				}
			}
		case *ast.IndexExpr:
			if par.X == e {
				use = "index"
				switch g := up(k + 1).(type) {
				case *ast.AssignStmt:
					if inLhs(g, par) {
						use = "assign"
					}
				case *ast.IncDecStmt:
					use = "assign"
				case *ast.UnaryExpr:
					if g.Op == token.AND {
						use = "addr"
					}
				}
			}
		case *ast.SliceExpr:
			if par.X == e {
				use = "index"
			}
		case *ast.AssignStmt:
			if inLhs(par, e) {
				use = "assign"
			}
		case *ast.IncDecStmt:
			use = "assign"
		case *ast.UnaryExpr:
			if par.Op == token.AND {
				use = "addr"
			}
		case *ast.RangeStmt:
			if par.X == e {
				use = "range"
			}
		}
		out = append(out, pkgVarUse{v, use})
		return true
	})
	return out
}

func kindPkgVars(c *Ctx, it Item) (string, error) {
	p, err := c.Pkg(it.Str("dir"))
	if err != nil {
		return "", err
	}
	closure := it.Str("closure")
	if closure == "" {
		closure = "package"
	}
	if closure != "package" && closure != "files" && closure != "none" {
		return "", fmt.Errorf("pkgvars: closure %q", closure)
	}
	files := map[string]bool{}
	for _, f := range it.Strs("files") {
		files[f] = true
	}
	// every function declaration of the package
	decls := map[*types.Func]*ast.FuncDecl{}
	inFiles := map[*ast.FuncDecl]bool{}
	var all []*ast.FuncDecl
	seenFile := map[string]bool{}
	for _, f := range p.Syntax {
		base := filepath.Base(p.Fset.Position(f.Pos()).Filename)
		if strings.HasSuffix(base, "_test.go") {
			continue
		}
		seenFile[base] = true
		for _, d := range f.Decls {
			fd, ok := d.(*ast.FuncDecl)
			if !ok || fd.Body == nil {
				continue
			}
			if fn, ok := p.TypesInfo.Defs[fd.Name].(*types.Func); ok {
				decls[fn] = fd
			}
			all = append(all, fd)
			if files[base] {
				inFiles[fd] = true
			}
		}
	}
	for f := range files {
		if !seenFile[f] {
			return "", fmt.Errorf("pkgvars: no file %s in %s", f, it.Str("dir"))
		}
	}
	var roots []*ast.FuncDecl
	for _, name := range it.Strs("funcs") {
		_, fd, err := c.FindFunc(it.Str("dir"), name)
		if err != nil {
			return "", err
		}
		roots = append(roots, fd)
	}
	for _, fd := range all {
		if inFiles[fd] {
			roots = append(roots, fd)
		}
	}
	if len(roots) == 0 {
		return "", fmt.Errorf("pkgvars: no root function")
	}
	qual := func(q *types.Package) string { return q.Name() }
	type row struct{ root, via, v, typ, use string }
	rowset := map[row]bool{}
	ownVars := map[*types.Var]bool{}
	for _, root := range roots {
		seen := map[*ast.FuncDecl]bool{root: true}
		queue := []*ast.FuncDecl{root}
		for len(queue) > 0 {
			fd := queue[0]
			queue = queue[1:]
			for _, u := range pkgVarUses(p, fd.Body) {
				rowset[row{pkgVarFuncName(root), pkgVarFuncName(fd), u.v.Pkg().Name() + "." + u.v.Name(),
					types.TypeString(u.v.Type(), qual), u.use}] = true
				if u.v.Pkg() == p.Types {
					ownVars[u.v] = true
				}
			}
			if closure == "none" {
				continue
			}
			ast.Inspect(fd.Body, func(n ast.Node) bool {
				id, ok := n.(*ast.Ident)
				if !ok {
					return true
				}
				fn, ok := p.TypesInfo.Uses[id].(*types.Func)
				if !ok {
					return true
				}
				if g := fn.Origin(); g != nil {
					fn = g
				}
				callee, ok := decls[fn]
				if !ok || seen[callee] {
					return true
				}
				if closure == "files" && !inFiles[callee] {
					return true
				}
				seen[callee] = true
				queue = append(queue, callee)
				return true
			})
		}
	}
	var rows []row
	for r := range rowset {
		rows = append(rows, r)
	}
	sort.Slice(rows, func(i, j int) bool {
		a, b := rows[i], rows[j]
		if a.root != b.root {
			return a.root < b.root
		}
		if a.via != b.via {
			return a.via < b.via
		}
		if a.v != b.v {
			return a.v < b.v
		}
		return a.use < b.use
	})
	// who mutates (assign / addr / method call) the package's own variables that occur above
	type mrow struct{ v, fn, use string }
	mset := map[mrow]bool{}
	for _, fd := range all {
		for _, u := range pkgVarUses(p, fd.Body) {
			if !ownVars[u.v] {
				continue
			}
			if u.use == "assign" || u.use == "addr" || strings.HasPrefix(u.use, "call:") {
				mset[mrow{u.v.Pkg().Name() + "." + u.v.Name(), pkgVarFuncName(fd), u.use}] = true
			}
		}
	}
	var mrows []mrow
	for m := range mset {
		mrows = append(mrows, m)
	}
	sort.Slice(mrows, func(i, j int) bool {
		a, b := mrows[i], mrows[j]
		if a.v != b.v {
			return a.v < b.v
		}
		if a.fn != b.fn {
			return a.fn < b.fn
		}
		return a.use < b.use
	})
	var sb strings.Builder
	name := it.Str("name")
	fmt.Fprintf(&sb, "def %s : List (String × String × String × String × String) := [", name)
	for i, r := range rows {
		if i > 0 {
			sb.WriteString(",")
		}
		fmt.Fprintf(&sb, "\n  (%s, %s, %s, %s, %s)", leanStr(r.root), leanStr(r.via), leanStr(r.v), leanStr(r.typ), leanStr(r.use))
	}
	sb.WriteString("]\n")
	fmt.Fprintf(&sb, "def %sMutators : List (String × String × String) := [", name)
	for i, m := range mrows {
		if i > 0 {
			sb.WriteString(",")
		}
		fmt.Fprintf(&sb, "\n  (%s, %s, %s)", leanStr(m.v), leanStr(m.fn), leanStr(m.use))
	}
	sb.WriteString("]\n")
	return sb.String(), nil
}
