package main

// Whitespace normalisation of printed Go source that leaves literals alone (audit round 7, B28):
// `strings.Join(strings.Fields(s), " ")` also collapsed blanks INSIDE string / rune literals, so a tie
// that pins `"  V2"` really pinned `" V2"` and could not see the difference. collapseOutsideLiterals
// collapses runs of white space to one blank only between tokens; the text of interpreted strings
// ("…"), raw strings (`…`) and rune literals ('…') is copied byte for byte.

import "strings"

func collapseOutsideLiterals(s string) string {
	var sb strings.Builder
	pendingSpace := false
	emit := func(b byte) {
		if pendingSpace && sb.Len() > 0 {
			sb.WriteByte(' ')
		}
		pendingSpace = false
		sb.WriteByte(b)
	}
	i := 0
	for i < len(s) {
		ch := s[i]
		switch {
		case ch == ' ' || ch == '\t' || ch == '\n' || ch == '\r':
			pendingSpace = true
			i++
		case ch == '"' || ch == '\'':
			// interpreted string / rune literal: up to the matching unescaped quote
			j := i + 1
			for j < len(s) && s[j] != ch {
				if s[j] == '\\' && j+1 < len(s) {
					j++
				}
				j++
			}
			if j < len(s) {
				j++
			}
			emit(s[i])
			sb.WriteString(s[i+1 : j])
			i = j
		case ch == '`':
			j := i + 1
			for j < len(s) && s[j] != '`' {
				j++
			}
			if j < len(s) {
				j++
			}
			emit(s[i])
			sb.WriteString(s[i+1 : j])
			i = j
		default:
			emit(ch)
			i++
		}
	}
	return sb.String()
}
