package main

// Extractors added for engine E1 (codec / numeric / timing):
//
//	funcc   same as "func", but function-local `const` declarations are accepted: every use of
//	        such a constant is already evaluated by go/types (rendered as a literal), so the
//	        declaration statement itself carries no behaviour and is dropped before translation.
//	body    {"name","dir","func"} → def <name> : List String   — the normalised text of *every*
//	        statement of the function body in source order (one entry per simple statement,
//	        `if <cond> {` / `} else {` / `}` / `for <hdr> {` markers for compound ones). Used to
//	        pin small functions the integer translator cannot render (slices, pointers).

import (
	"fmt"
	"go/ast"
	"go/token"
	"strings"
)

func init() {
	register("funcc", kindFuncConst)
	register("body", kindBody)
}

func kindFuncConst(c *Ctx, it Item) (string, error) {
	_, fd, err := c.FindFunc(it.Str("dir"), it.Str("func"))
	if err != nil {
		return "", err
	}
	// the package (and so this FuncDecl) is cached in c.pkgs: kindFunc sees the filtered body
	var keep []ast.Stmt
	for _, s := range fd.Body.List {
		if ds, ok := s.(*ast.DeclStmt); ok {
			if gd, ok := ds.Decl.(*ast.GenDecl); ok && gd.Tok == token.CONST {
				continue
			}
		}
		keep = append(keep, s)
	}
	fd.Body.List = keep
	return kindFunc(c, it)
}

func kindBody(c *Ctx, it Item) (string, error) {
	p, fd, err := c.FindFunc(it.Str("dir"), it.Str("func"))
	if err != nil {
		return "", err
	}
	var rows []string
	var walk func(list []ast.Stmt) error
	var one func(s ast.Stmt) error
	one = func(s ast.Stmt) error {
		switch x := s.(type) {
		case *ast.BlockStmt:
			return walk(x.List)
		case *ast.IfStmt:
			hdr := "if "
			if x.Init != nil {
				hdr += exprText(p.Fset, x.Init) + "; "
			}
			rows = append(rows, hdr+exprText(p.Fset, x.Cond)+" {")
			if err := walk(x.Body.List); err != nil {
				return err
			}
			if x.Else != nil {
				rows = append(rows, "} else {")
				if err := one(x.Else); err != nil {
					return err
				}
			}
			rows = append(rows, "}")
		case *ast.ForStmt:
			hdr := "for "
			if x.Init != nil {
				hdr += exprText(p.Fset, x.Init)
			}
			hdr += "; "
			if x.Cond != nil {
				hdr += exprText(p.Fset, x.Cond)
			}
			hdr += "; "
			if x.Post != nil {
				hdr += exprText(p.Fset, x.Post)
			}
			rows = append(rows, hdr+" {")
			if err := walk(x.Body.List); err != nil {
				return err
			}
			rows = append(rows, "}")
		case *ast.AssignStmt, *ast.ExprStmt, *ast.ReturnStmt, *ast.IncDecStmt, *ast.BranchStmt, *ast.DeclStmt:
			rows = append(rows, exprText(p.Fset, s))
		case *ast.LabeledStmt:
			rows = append(rows, x.Label.Name+":")
			return one(x.Stmt)
		case *ast.EmptyStmt:
		default:
			// any other statement (switch, select, range, go, defer, …): its whole normalised text
			rows = append(rows, exprText(p.Fset, s))
		}
		return nil
	}
	walk = func(list []ast.Stmt) error {
		for _, s := range list {
			if err := one(s); err != nil {
				return err
			}
		}
		return nil
	}
	if err := walk(fd.Body.List); err != nil {
		return "", err
	}
	return fmt.Sprintf("def %s : List String := [\n  %s]\n", it.Str("name"), strings.Join(quoteAll(rows), ",\n  ")), nil
}
