package main

// modpin {"name","module","files":[relative file names]}
//   → def <name>Version : String        the version the repo's go.mod resolves the module to
//     def <name>Replaced : Bool         true when a `replace` directive redirects it
//     def <name>Sha256 : List (String × String)   (file, sha256 of its content in the resolved module directory)
// Used to pin a third-party dependency whose behaviour is modelled by hand (engine E9, go-diskqueue):
// a version bump, a `replace`, a vendored or edited copy changes these facts and breaks the tie.

import (
	"crypto/sha256"
	"encoding/hex"
	"encoding/json"
	"fmt"
	"os"
	"os/exec"
	"path/filepath"
	"strings"
)

func init() { register("modpin", kindModPin) }

func kindModPin(c *Ctx, it Item) (string, error) {
	mod := it.Str("module")
	cmd := exec.Command("go", "list", "-m", "-json", mod)
	cmd.Dir = c.Repo
	cmd.Env = append(os.Environ(), "GOFLAGS=-mod=mod", "GOPROXY=off", "GOSUMDB=off", "GOTOOLCHAIN=local")
	outb, err := cmd.Output()
	if err != nil {
		return "", fmt.Errorf("go list -m %s: %v", mod, err)
	}
	var m struct {
		Version string
		Dir     string
		Replace *struct {
			Path    string
			Version string
			Dir     string
		}
	}
	if err := json.Unmarshal(outb, &m); err != nil {
		return "", err
	}
	dir, replaced := m.Dir, false
	if m.Replace != nil {
		replaced = true
		if m.Replace.Dir != "" {
			dir = m.Replace.Dir
		}
	}
	// a vendor directory takes precedence for the build when present
	if _, err := os.Stat(filepath.Join(c.Repo, "vendor", filepath.FromSlash(mod))); err == nil {
		dir, replaced = filepath.Join(c.Repo, "vendor", filepath.FromSlash(mod)), true
	}
	var sb strings.Builder
	name := it.Str("name")
	fmt.Fprintf(&sb, "def %sVersion : String := %q\n", name, m.Version)
	fmt.Fprintf(&sb, "def %sReplaced : Bool := %v\n", name, replaced)
	var items []string
	for _, f := range it.Strs("files") {
		b, err := os.ReadFile(filepath.Join(dir, f))
		if err != nil {
			return "", fmt.Errorf("module %s: %v", mod, err)
		}
		h := sha256.Sum256(b)
		items = append(items, fmt.Sprintf("(%q, %q)", f, hex.EncodeToString(h[:])))
	}
	fmt.Fprintf(&sb, "def %sSha256 : List (String × String) := [%s]\n", name, strings.Join(items, ", "))
	return sb.String(), nil
}
