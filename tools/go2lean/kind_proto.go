package main

// Extractors added for C09/C10/C11 (round 6).
//
//   - "routesall": like "routes" but also the `router.Handler(method, path, h)` registrations (the
//     net/http/pprof handlers) and with the decorator reduced to its last element
//     (http_api.V1 / http_api.PlainText / "" when the handler is registered undecorated).
//   - "pfunc": the "func" translator applied to a function that needs three harmless
//     normalisations first (each one is REJECTED unless it has exactly the listed shape):
//       1. `defer X()` where X is listed under "skip" (a mutex unlock) is dropped, like the call itself;
//       2. `fmt.Errorf("literal", …)` / `errors.New("literal")` become an error *named by the literal*
//          (the translator renders an error value as a Lean String: the format text identifies the
//          return site, the formatted arguments are not part of the translated result);
//       3. `atomic.StoreInt32/64(&recv.f, v)` becomes `recv.f = v` (single-threaded reading; the
//          atomicity itself is not the subject of the translated definition).
//       4. `if <cond> { … }` (no else) whose condition text is listed under "dropif" is dropped: used
//          for blocks that only touch I/O objects (flush + re-create the bufio.Writer) and can only
//          return an I/O error — outside the translated state, an I/O-fault path.
//     The translated definition is then produced by the unchanged kindFunc.
//   - "structfields": (field name, Go type, json tag) of a struct type, or of the anonymous struct
//     literal passed to json.Marshal inside a function ("func" + "marshal": true).

import (
	"fmt"
	"go/ast"
	"go/token"
	"go/types"
	"reflect"
	"strconv"
	"strings"
)

func init() {
	register("routesall", kindRoutesAll)
	register("pfunc", kindPFunc)
	register("structfields", kindStructFields)
}

func kindRoutesAll(c *Ctx, it Item) (string, error) {
	p, fd, err := c.FindFunc(it.Str("dir"), it.Str("func"))
	if err != nil {
		return "", err
	}
	var rows []string
	var bad error
	ast.Inspect(fd.Body, func(n ast.Node) bool {
		ce, ok := n.(*ast.CallExpr)
		if !ok {
			return true
		}
		nm := calleeName(ce.Fun)
		if nm != "Handle" && nm != "HandlerFunc" && nm != "Handler" {
			return true
		}
		sel, isSel := ce.Fun.(*ast.SelectorExpr)
		if !isSel || len(ce.Args) != 3 {
			return true
		}
		if id, ok := sel.X.(*ast.Ident); !ok || id.Name != "router" {
			return true
		}
		m, ok1 := ce.Args[0].(*ast.BasicLit)
		pa, ok2 := ce.Args[1].(*ast.BasicLit)
		if !ok1 || !ok2 {
			bad = fmt.Errorf("route with non-literal method/path: %s", exprText(p.Fset, ce))
			return true
		}
		method, _ := strconv.Unquote(m.Value)
		path, _ := strconv.Unquote(pa.Value)
		handler, deco := exprText(p.Fset, ce.Args[2]), ""
		if dc, ok := ce.Args[2].(*ast.CallExpr); ok && calleeName(dc.Fun) == "Decorate" && len(dc.Args) >= 2 {
			handler = calleeName(dc.Args[0])
			deco = exprText(p.Fset, dc.Args[len(dc.Args)-1])
			for _, a := range dc.Args[1 : len(dc.Args)-1] {
				if t := exprText(p.Fset, a); t != "log" {
					bad = fmt.Errorf("route %s %s: unexpected inner decorator %s", method, path, t)
				}
			}
		}
		rows = append(rows, fmt.Sprintf("(%s, %s, %s, %s)", leanStr(method), leanStr(path), leanStr(handler), leanStr(deco)))
		return true
	})
	if bad != nil {
		return "", bad
	}
	if len(rows) == 0 {
		return "", fmt.Errorf("no routes found in %s", it.Str("func"))
	}
	return fmt.Sprintf("def %s : List (String × String × String × String) := [\n  %s]\n", it.Str("name"), strings.Join(rows, ",\n  ")), nil
}

// ---------------------------------------------------------------------------- pfunc

func kindPFunc(c *Ctx, it Item) (string, error) {
	p, fd, err := c.FindFunc(it.Str("dir"), it.Str("func"))
	if err != nil {
		return "", err
	}
	skip := map[string]bool{}
	for _, s := range it.Strs("skip") {
		skip[s] = true
	}
	dropIf := map[string]bool{}
	for _, s := range it.Strs("dropif") {
		dropIf[s] = true
	}
	recv := ""
	if fd.Recv != nil && len(fd.Recv.List) == 1 && len(fd.Recv.List[0].Names) == 1 {
		recv = fd.Recv.List[0].Names[0].Name
	}
	errType := types.Universe.Lookup("error").Type()
	var bad error
	// rewrite expressions: error constructors → identifier named by the literal
	var rewriteExpr func(e ast.Expr) ast.Expr
	rewriteExpr = func(e ast.Expr) ast.Expr {
		ce, ok := e.(*ast.CallExpr)
		if !ok {
			return e
		}
		txt := exprText(p.Fset, ce.Fun)
		if txt == "fmt.Errorf" || txt == "errors.New" {
			if len(ce.Args) == 0 {
				bad = fmt.Errorf("error constructor without arguments")
				return e
			}
			bl, ok := ce.Args[0].(*ast.BasicLit)
			if !ok || bl.Kind != token.STRING {
				bad = fmt.Errorf("error constructor with a non-literal text: %s", exprText(p.Fset, ce))
				return e
			}
			lit, _ := strconv.Unquote(bl.Value)
			id := &ast.Ident{NamePos: ce.Pos(), Name: lit}
			p.TypesInfo.Uses[id] = types.NewVar(ce.Pos(), p.Types, lit, errType)
			return id
		}
		return e
	}
	var rewriteList func(list []ast.Stmt) []ast.Stmt
	rewriteStmt := func(s ast.Stmt) (ast.Stmt, bool) {
		switch x := s.(type) {
		case *ast.DeferStmt:
			if skip[exprText(p.Fset, x.Call.Fun)] && len(x.Call.Args) == 0 {
				return nil, false
			}
			bad = fmt.Errorf("defer of a call that is not listed under skip: %s", exprText(p.Fset, x))
		case *ast.ExprStmt:
			if ce, ok := x.X.(*ast.CallExpr); ok {
				txt := exprText(p.Fset, ce.Fun)
				if txt == "atomic.StoreInt32" || txt == "atomic.StoreInt64" {
					if len(ce.Args) == 2 {
						if ue, ok := ce.Args[0].(*ast.UnaryExpr); ok && ue.Op == token.AND {
							if se, ok := ue.X.(*ast.SelectorExpr); ok {
								if id, ok := se.X.(*ast.Ident); ok && id.Name == recv {
									return &ast.AssignStmt{Lhs: []ast.Expr{se}, TokPos: x.Pos(), Tok: token.ASSIGN, Rhs: []ast.Expr{ce.Args[1]}}, true
								}
							}
						}
					}
					bad = fmt.Errorf("atomic store of unexpected shape: %s", exprText(p.Fset, x))
				}
			}
		case *ast.ReturnStmt:
			for i := range x.Results {
				x.Results[i] = rewriteExpr(x.Results[i])
			}
		case *ast.IfStmt:
			if dropIf[exprText(p.Fset, x.Cond)] && x.Else == nil && x.Init == nil {
				return nil, false
			}
			x.Body.List = rewriteList(x.Body.List)
			if eb, ok := x.Else.(*ast.BlockStmt); ok {
				eb.List = rewriteList(eb.List)
			}
		case *ast.BlockStmt:
			x.List = rewriteList(x.List)
		case *ast.SwitchStmt:
			for _, cc := range x.Body.List {
				if c, ok := cc.(*ast.CaseClause); ok {
					c.Body = rewriteList(c.Body)
				}
			}
		}
		return s, true
	}
	rewriteList = func(list []ast.Stmt) []ast.Stmt {
		var out []ast.Stmt
		for _, s := range list {
			if n, keep := rewriteStmt(s); keep {
				out = append(out, n)
			}
		}
		return out
	}
	if it["_rewritten"] == nil {
		fd.Body.List = rewriteList(fd.Body.List)
	}
	if bad != nil {
		return "", bad
	}
	return kindFunc(c, it)
}

// ---------------------------------------------------------------------------- structfields

func kindStructFields(c *Ctx, it Item) (string, error) {
	var st *ast.StructType
	var fset *token.FileSet
	if fn := it.Str("func"); fn != "" {
		p, fd, err := c.FindFunc(it.Str("dir"), fn)
		if err != nil {
			return "", err
		}
		fset = p.Fset
		// the anonymous struct literal handed to json.Marshal (or returned, with "returned": true)
		ast.Inspect(fd.Body, func(n ast.Node) bool {
			switch x := n.(type) {
			case *ast.CallExpr:
				if exprText(p.Fset, x.Fun) == "json.Marshal" && len(x.Args) == 1 && it["returned"] == nil {
					if cl, ok := x.Args[0].(*ast.CompositeLit); ok {
						if s, ok := cl.Type.(*ast.StructType); ok && st == nil {
							st = s
						}
					}
				}
			case *ast.ReturnStmt:
				if it["returned"] != nil && len(x.Results) >= 1 {
					if cl, ok := x.Results[0].(*ast.CompositeLit); ok {
						if s, ok := cl.Type.(*ast.StructType); ok && st == nil {
							st = s
						}
					}
				}
			}
			return true
		})
	} else {
		p, err := c.Pkg(it.Str("dir"))
		if err != nil {
			return "", err
		}
		fset = p.Fset
		for _, f := range p.Syntax {
			for _, d := range f.Decls {
				gd, ok := d.(*ast.GenDecl)
				if !ok || gd.Tok != token.TYPE {
					continue
				}
				for _, sp := range gd.Specs {
					ts := sp.(*ast.TypeSpec)
					if ts.Name.Name == it.Str("type") {
						if s, ok := ts.Type.(*ast.StructType); ok {
							st = s
						}
					}
				}
			}
		}
	}
	if st == nil {
		return "", fmt.Errorf("struct not found for %s", it.Str("name"))
	}
	var rows []string
	for _, f := range st.Fields.List {
		tag := ""
		if f.Tag != nil {
			raw, _ := strconv.Unquote(f.Tag.Value)
			tag = reflect.StructTag(raw).Get("json")
		}
		for _, n := range f.Names {
			rows = append(rows, fmt.Sprintf("(%s, %s, %s)", leanStr(n.Name), leanStr(exprText(fset, f.Type)), leanStr(tag)))
		}
	}
	return fmt.Sprintf("def %s : List (String × String × String) := [\n  %s]\n", it.Str("name"), strings.Join(rows, ",\n  ")), nil
}
