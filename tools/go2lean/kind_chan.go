package main

// Fact extractors used by the E2 (channel state machine) ties.
//
//	stmtseq   {"name","dir","func","match":[...]} → def <name> : List String
//	          normalised text, in source order, of every expression statement (call), ++/--
//	          statement, assignment, return and if-condition of the function whose text contains
//	          one of the substrings: the order of effects of a function. With "loops": true also
//	          `label L`, `range <expr>` and `for <cond>` rows (where labels and loops sit).
//	callers   {"name","dir","callee"}             → def <name> : List String
//	          names (sorted) of the functions of the package (non-test files) that call <callee>.
//	mapwrites {"name","dir","field"}              → def <name> : List (String × String)
//	          every function (sorted by name) that deletes from / stores into / re-makes the map
//	          field <field>: (function, "delete" | "store" | "assign").

import (
	"fmt"
	"go/ast"
	"sort"
	"strings"
)

func init() {
	register("stmtseq", kindStmtSeq)
	register("chan_callers", kindChanCallers)
	register("mapwrites", kindMapWrites)
}

func kindStmtSeq(c *Ctx, it Item) (string, error) {
	p, fd, err := c.FindFunc(it.Str("dir"), it.Str("func"))
	if err != nil {
		return "", err
	}
	pats := it.Strs("match")
	var rows []string
	add := func(kind string, n ast.Node) {
		txt := exprText(p.Fset, n)
		for _, pa := range pats {
			if strings.Contains(txt, pa) {
				rows = append(rows, kind+" "+txt)
				return
			}
		}
	}
	ast.Inspect(fd.Body, func(n ast.Node) bool {
		switch x := n.(type) {
		case *ast.ExprStmt:
			add("do", x.X)
		case *ast.IncDecStmt:
			add("do", x)
		case *ast.AssignStmt:
			add("assign", x)
		case *ast.ReturnStmt:
			add("stmt", x)
		case *ast.IfStmt:
			add("if", x.Cond)
		case *ast.GoStmt:
			add("go", x.Call)
		case *ast.SendStmt:
			add("send", x)
		case *ast.BranchStmt:
			add("branch", x)
		case *ast.LabeledStmt:
			// only with "loops": true (keeps the older facts unchanged): where a label sits
			if it["loops"] == true {
				for _, pa := range pats {
					if strings.Contains("label "+x.Label.Name, pa) {
						rows = append(rows, "label "+x.Label.Name)
						break
					}
				}
			}
		case *ast.RangeStmt:
			if it["loops"] == true {
				add("range", x.X)
			}
		case *ast.CommClause:
			// a `default:` arm turns a blocking select into a non-blocking one
			if it["loops"] == true && x.Comm == nil {
				for _, pa := range pats {
					if pa == "select-default" {
						rows = append(rows, "select-default")
						break
					}
				}
			}
		case *ast.ForStmt:
			if it["loops"] == true && x.Cond != nil {
				add("for", x.Cond)
			}
		}
		return true
	})
	if len(rows) == 0 {
		return "", fmt.Errorf("no statement of %s matches %v", it.Str("func"), pats)
	}
	return fmt.Sprintf("def %s : List String := [\n  %s]\n", it.Str("name"), strings.Join(quoteAll(rows), ",\n  ")), nil
}

func pkgFuncs(c *Ctx, dir string, f func(name string, fd *ast.FuncDecl)) error {
	p, err := c.Pkg(dir)
	if err != nil {
		return err
	}
	for _, file := range p.Syntax {
		if strings.HasSuffix(p.Fset.File(file.Pos()).Name(), "_test.go") {
			continue
		}
		for _, d := range file.Decls {
			fd, ok := d.(*ast.FuncDecl)
			if !ok || fd.Body == nil {
				continue
			}
			name := fd.Name.Name
			if fd.Recv != nil && len(fd.Recv.List) == 1 {
				t := fd.Recv.List[0].Type
				if s, ok := t.(*ast.StarExpr); ok {
					t = s.X
				}
				if id, ok := t.(*ast.Ident); ok {
					name = id.Name + "." + name
				}
			}
			f(name, fd)
		}
	}
	return nil
}

func kindChanCallers(c *Ctx, it Item) (string, error) {
	callee := it.Str("callee")
	set := map[string]bool{}
	err := pkgFuncs(c, it.Str("dir"), func(name string, fd *ast.FuncDecl) {
		ast.Inspect(fd.Body, func(n ast.Node) bool {
			if ce, ok := n.(*ast.CallExpr); ok && calleeName(ce.Fun) == callee {
				set[name] = true
			}
			return true
		})
	})
	if err != nil {
		return "", err
	}
	var names []string
	for n := range set {
		names = append(names, n)
	}
	sort.Strings(names)
	if len(names) == 0 {
		return "", fmt.Errorf("nobody calls %s", callee)
	}
	return fmt.Sprintf("def %s : List String := %s\n", it.Str("name"), leanStrList(names)), nil
}

func selName(e ast.Expr) string {
	if s, ok := e.(*ast.SelectorExpr); ok {
		return s.Sel.Name
	}
	return ""
}

func kindMapWrites(c *Ctx, it Item) (string, error) {
	field := it.Str("field")
	set := map[string]bool{}
	err := pkgFuncs(c, it.Str("dir"), func(name string, fd *ast.FuncDecl) {
		ast.Inspect(fd.Body, func(n ast.Node) bool {
			switch x := n.(type) {
			case *ast.CallExpr:
				if id, ok := x.Fun.(*ast.Ident); ok && id.Name == "delete" && len(x.Args) == 2 && selName(x.Args[0]) == field {
					set[name+"\x00delete"] = true
				}
			case *ast.AssignStmt:
				for _, l := range x.Lhs {
					if ix, ok := l.(*ast.IndexExpr); ok && selName(ix.X) == field {
						set[name+"\x00store"] = true
					}
					if selName(l) == field {
						set[name+"\x00assign"] = true
					}
				}
			}
			return true
		})
	})
	if err != nil {
		return "", err
	}
	var keys []string
	for k := range set {
		keys = append(keys, k)
	}
	sort.Strings(keys)
	var rows []string
	for _, k := range keys {
		p := strings.SplitN(k, "\x00", 2)
		rows = append(rows, fmt.Sprintf("(%s, %s)", leanStr(p[0]), leanStr(p[1])))
	}
	if len(rows) == 0 {
		return "", fmt.Errorf("no writes to field %s found", field)
	}
	return fmt.Sprintf("def %s : List (String × String) := [\n  %s]\n", it.Str("name"), strings.Join(rows, ",\n  ")), nil
}
