package main

// kind "clientlit": how a tool's main() builds the package-level `*http.Client` it publishes through
// (audit round 7, C3: nsq_to_http followed redirects because the literal had no CheckRedirect).
//
//	{"kind":"clientlit","name":N,"dir":"apps/nsq_to_http","func":"main","var":"httpclient","field":"CheckRedirect"}
//
// Emits
//	def N_fields : List String              keys of the composite literal `<var> = &http.Client{…}` in source order
//	def N_<field> : Option (List String)    `none` if the key is absent; otherwise the statements of the function the
//	                                        value denotes (a func literal, or a package-level func named by an identifier)
//	def N_others : List String              every other statement of the package (non-test files) that assigns to
//	                                        <var> or to a field of <var> — expected empty
//	def N_<field>_translated : Bool         the function fits the subset below and N_<field>_fn is its translation
//	def N_<field>_fn : Bool → Bool → Nat → Nat
//	                                        the function `func(req *http.Request, via []*http.Request) error` as a Lean
//	                                        function of (req.Method == "POST", via[0].Method == "POST", len(via)) with the
//	                                        result 0 = `nil`, 1 = `http.ErrUseLastResponse`, 2 = any other error.
//	                                        Subset: a statement list of `if COND { … return … }` (no else, body ends in a
//	                                        return) and a final `return E`; COND built with `||`, `&&`, `!`, parentheses from
//	                                        comparisons (`==`, `!=`, `<`, `<=`, `>`, `>=`) of `len(<via>)` / integer literals and
//	                                        (`==`, `!=`) of `<req>.Method` / `<via>[0].Method` / "GET" / "POST" / http.MethodGet /
//	                                        http.MethodPost (parameter names are read from the declaration). Anything else
//	                                        (or an absent key): `translated = false`, `fn = fun _ _ _ => 2`.
// REJECTED: no such assignment / more than one at the top level of <func>, a right-hand side that is not
// `&http.Client{key: value, …}`, a value of <field> that is neither a func literal nor the name of a package-level func.

import (
	"fmt"
	"go/ast"
	"go/token"
	"strings"
)

func init() { register("clientlit", kindClientLit) }

func kindClientLit(c *Ctx, it Item) (string, error) {
	p, fd, err := c.FindFunc(it.Str("dir"), it.Str("func"))
	if err != nil {
		return "", err
	}
	v, field, name := it.Str("var"), it.Str("field"), it.Str("name")
	var lit *ast.CompositeLit
	var theAssign ast.Stmt
	n := 0
	for _, s := range fd.Body.List {
		as, ok := s.(*ast.AssignStmt)
		if !ok || len(as.Lhs) != 1 || exprText(p.Fset, as.Lhs[0]) != v {
			continue
		}
		n++
		if as.Tok != token.ASSIGN || len(as.Rhs) != 1 {
			return "", fmt.Errorf("clientlit: unsupported assignment %s", exprText(p.Fset, s))
		}
		u, ok := as.Rhs[0].(*ast.UnaryExpr)
		if !ok || u.Op != token.AND {
			return "", fmt.Errorf("clientlit: %s is not assigned `&http.Client{…}`", v)
		}
		cl, ok := u.X.(*ast.CompositeLit)
		if !ok || exprText(p.Fset, cl.Type) != "http.Client" {
			return "", fmt.Errorf("clientlit: %s is not assigned `&http.Client{…}`", v)
		}
		lit, theAssign = cl, s
	}
	if n != 1 {
		return "", fmt.Errorf("clientlit: %d top-level assignments to %s in %s", n, v, it.Str("func"))
	}
	var fields []string
	val := "none"
	fnText, translated := "fun _ _ _ => 2", false
	for _, e := range lit.Elts {
		kv, ok := e.(*ast.KeyValueExpr)
		if !ok {
			return "", fmt.Errorf("clientlit: positional element in the literal")
		}
		k := exprText(p.Fset, kv.Key)
		fields = append(fields, k)
		if k != field {
			continue
		}
		var body *ast.BlockStmt
		var ftype *ast.FuncType
		switch x := kv.Value.(type) {
		case *ast.FuncLit:
			body, ftype = x.Body, x.Type
		case *ast.Ident:
			for _, f := range p.Syntax {
				for _, d := range f.Decls {
					if g, ok := d.(*ast.FuncDecl); ok && g.Recv == nil && g.Name.Name == x.Name {
						body, ftype = g.Body, g.Type
					}
				}
			}
		}
		if body == nil {
			return "", fmt.Errorf("clientlit: value of %s is neither a func literal nor a package-level func", field)
		}
		var rows []string
		for _, s := range body.List {
			rows = append(rows, exprText(p.Fset, s))
		}
		val = "some [" + strings.Join(quoteAll(rows), ", ") + "]"
		if t, ok := translateCheckRedirect(p.Fset, ftype, body); ok {
			fnText, translated = "fun reqPost via0Post nvia => "+t, true
		}
	}
	// any other write to the variable or to one of its fields, anywhere in the package
	var others []string
	for _, f := range p.Syntax {
		if strings.HasSuffix(p.Fset.Position(f.Pos()).Filename, "_test.go") {
			continue
		}
		ast.Inspect(f, func(nd ast.Node) bool {
			as, ok := nd.(*ast.AssignStmt)
			if !ok || ast.Stmt(as) == theAssign {
				return true
			}
			for _, l := range as.Lhs {
				t := exprText(p.Fset, l)
				if t == v || strings.HasPrefix(t, v+".") {
					others = append(others, exprText(p.Fset, as))
				}
			}
			return true
		})
	}
	return fmt.Sprintf("def %s_fields : List String := [%s]\ndef %s_%s : Option (List String) := %s\ndef %s_others : List String := [%s]\n"+
		"def %s_%s_translated : Bool := %v\ndef %s_%s_fn : Bool → Bool → Nat → Nat := %s\n",
		name, strings.Join(quoteAll(fields), ", "), name, field, val, name, strings.Join(quoteAll(others), ", "),
		name, field, translated, name, field, fnText), nil
}

// translateCheckRedirect: see the header comment (N_<field>_fn). Returns the Lean term over `reqPost via0Post nvia`.
func translateCheckRedirect(fset *token.FileSet, ft *ast.FuncType, body *ast.BlockStmt) (string, bool) {
	if ft == nil || body == nil || ft.Params == nil {
		return "", false
	}
	var names []string
	for _, f := range ft.Params.List {
		for _, n := range f.Names {
			names = append(names, n.Name)
		}
	}
	if len(names) != 2 {
		return "", false
	}
	req, via := names[0], names[1]
	var intExpr func(e ast.Expr) (string, bool)
	intExpr = func(e ast.Expr) (string, bool) {
		switch x := e.(type) {
		case *ast.ParenExpr:
			return intExpr(x.X)
		case *ast.BasicLit:
			if x.Kind == token.INT && strings.Trim(x.Value, "0123456789") == "" && !(len(x.Value) > 1 && x.Value[0] == '0') {
				return x.Value, true
			}
		case *ast.CallExpr:
			if exprText(fset, x) == "len("+via+")" {
				return "nvia", true
			}
		}
		return "", false
	}
	var methExpr func(e ast.Expr) (string, bool)
	methExpr = func(e ast.Expr) (string, bool) {
		switch t := exprText(fset, e); t {
		case req + ".Method":
			return "reqPost", true
		case via + "[0].Method":
			return "via0Post", true
		case `"POST"`, "http.MethodPost":
			return "true", true
		case `"GET"`, "http.MethodGet":
			return "false", true
		}
		if pe, ok := e.(*ast.ParenExpr); ok {
			return methExpr(pe.X)
		}
		return "", false
	}
	var cond func(e ast.Expr) (string, bool)
	cond = func(e ast.Expr) (string, bool) {
		switch x := e.(type) {
		case *ast.ParenExpr:
			return cond(x.X)
		case *ast.UnaryExpr:
			if x.Op == token.NOT {
				if a, ok := cond(x.X); ok {
					return "(!" + a + ")", true
				}
			}
		case *ast.BinaryExpr:
			switch x.Op {
			case token.LOR, token.LAND:
				a, ok1 := cond(x.X)
				b, ok2 := cond(x.Y)
				if ok1 && ok2 {
					op := " || "
					if x.Op == token.LAND {
						op = " && "
					}
					return "(" + a + op + b + ")", true
				}
			case token.EQL, token.NEQ, token.LSS, token.LEQ, token.GTR, token.GEQ:
				if a, ok := intExpr(x.X); ok {
					if b, ok := intExpr(x.Y); ok {
						op := map[token.Token]string{token.EQL: "==", token.NEQ: "!=", token.LSS: "<", token.LEQ: "≤", token.GTR: ">", token.GEQ: "≥"}[x.Op]
						if x.Op == token.EQL || x.Op == token.NEQ {
							return "(" + a + " " + op + " " + b + ")", true
						}
						return "(decide (" + a + " " + op + " " + b + "))", true
					}
				}
				if x.Op == token.EQL || x.Op == token.NEQ {
					if a, ok := methExpr(x.X); ok {
						if b, ok := methExpr(x.Y); ok {
							op := "=="
							if x.Op == token.NEQ {
								op = "!="
							}
							return "(" + a + " " + op + " " + b + ")", true
						}
					}
				}
			}
		}
		return "", false
	}
	ret := func(s ast.Stmt) (string, bool) {
		r, ok := s.(*ast.ReturnStmt)
		if !ok || len(r.Results) != 1 {
			return "", false
		}
		switch exprText(fset, r.Results[0]) {
		case "nil":
			return "0", true
		case "http.ErrUseLastResponse":
			return "1", true
		}
		return "2", true
	}
	var stmts func(xs []ast.Stmt) (string, bool)
	stmts = func(xs []ast.Stmt) (string, bool) {
		if len(xs) == 0 {
			return "", false
		}
		if len(xs) == 1 {
			return ret(xs[0])
		}
		is, ok := xs[0].(*ast.IfStmt)
		if !ok || is.Init != nil || is.Else != nil {
			return "", false
		}
		c, ok1 := cond(is.Cond)
		th, ok2 := stmts(is.Body.List)
		el, ok3 := stmts(xs[1:])
		if !(ok1 && ok2 && ok3) {
			return "", false
		}
		return "if " + c + " then " + th + " else " + el, true
	}
	return stmts(body.List)
}
