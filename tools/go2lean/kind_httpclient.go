package main

// kind "clientlit": how a tool's main() builds the package-level `*http.Client` it publishes through
// (audit round 7, C3: nsq_to_http followed redirects because the literal had no CheckRedirect).
//
//	{"kind":"clientlit","name":N,"dir":"apps/nsq_to_http","func":"main","var":"httpclient","field":"CheckRedirect"}
//
// Emits
//	def N_fields : List String              keys of the composite literal `<var> = &http.Client{…}` in source order
//	def N_<field> : Option (List String)    `none` if the key is absent; otherwise the statements of the function the
//	                                        value denotes (a func literal, or a package-level func named by an identifier)
//	def N_others : List String              every other statement of the package (non-test files) that assigns to
//	                                        <var> or to a field of <var> — expected empty
// REJECTED: no such assignment / more than one at the top level of <func>, a right-hand side that is not
// `&http.Client{key: value, …}`, a value of <field> that is neither a func literal nor the name of a package-level func.

import (
	"fmt"
	"go/ast"
	"go/token"
	"strings"
)

func init() { register("clientlit", kindClientLit) }

func kindClientLit(c *Ctx, it Item) (string, error) {
	p, fd, err := c.FindFunc(it.Str("dir"), it.Str("func"))
	if err != nil {
		return "", err
	}
	v, field, name := it.Str("var"), it.Str("field"), it.Str("name")
	var lit *ast.CompositeLit
	var theAssign ast.Stmt
	n := 0
	for _, s := range fd.Body.List {
		as, ok := s.(*ast.AssignStmt)
		if !ok || len(as.Lhs) != 1 || exprText(p.Fset, as.Lhs[0]) != v {
			continue
		}
		n++
		if as.Tok != token.ASSIGN || len(as.Rhs) != 1 {
			return "", fmt.Errorf("clientlit: unsupported assignment %s", exprText(p.Fset, s))
		}
		u, ok := as.Rhs[0].(*ast.UnaryExpr)
		if !ok || u.Op != token.AND {
			return "", fmt.Errorf("clientlit: %s is not assigned `&http.Client{…}`", v)
		}
		cl, ok := u.X.(*ast.CompositeLit)
		if !ok || exprText(p.Fset, cl.Type) != "http.Client" {
			return "", fmt.Errorf("clientlit: %s is not assigned `&http.Client{…}`", v)
		}
		lit, theAssign = cl, s
	}
	if n != 1 {
		return "", fmt.Errorf("clientlit: %d top-level assignments to %s in %s", n, v, it.Str("func"))
	}
	var fields []string
	val := "none"
	for _, e := range lit.Elts {
		kv, ok := e.(*ast.KeyValueExpr)
		if !ok {
			return "", fmt.Errorf("clientlit: positional element in the literal")
		}
		k := exprText(p.Fset, kv.Key)
		fields = append(fields, k)
		if k != field {
			continue
		}
		var body *ast.BlockStmt
		switch x := kv.Value.(type) {
		case *ast.FuncLit:
			body = x.Body
		case *ast.Ident:
			for _, f := range p.Syntax {
				for _, d := range f.Decls {
					if g, ok := d.(*ast.FuncDecl); ok && g.Recv == nil && g.Name.Name == x.Name {
						body = g.Body
					}
				}
			}
		}
		if body == nil {
			return "", fmt.Errorf("clientlit: value of %s is neither a func literal nor a package-level func", field)
		}
		var rows []string
		for _, s := range body.List {
			rows = append(rows, exprText(p.Fset, s))
		}
		val = "some [" + strings.Join(quoteAll(rows), ", ") + "]"
	}
	// any other write to the variable or to one of its fields, anywhere in the package
	var others []string
	for _, f := range p.Syntax {
		if strings.HasSuffix(p.Fset.Position(f.Pos()).Filename, "_test.go") {
			continue
		}
		ast.Inspect(f, func(nd ast.Node) bool {
			as, ok := nd.(*ast.AssignStmt)
			if !ok || ast.Stmt(as) == theAssign {
				return true
			}
			for _, l := range as.Lhs {
				t := exprText(p.Fset, l)
				if t == v || strings.HasPrefix(t, v+".") {
					others = append(others, exprText(p.Fset, as))
				}
			}
			return true
		})
	}
	return fmt.Sprintf("def %s_fields : List String := [%s]\ndef %s_%s : Option (List String) := %s\ndef %s_others : List String := [%s]\n",
		name, strings.Join(quoteAll(fields), ", "), name, field, val, name, strings.Join(quoteAll(others), ", ")), nil
}
