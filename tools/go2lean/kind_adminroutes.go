package main

// Extractors for nsqadmin (engine E7, property C17).
//
//	adminroutes {"name","dir","func","recv","auth"}
//	    → def <name>Routes   : List Route                    every router.Handle/Handler/… registration
//	      def <name>Handlers : List (String × Skel)          control-flow skeleton of every registered handler
//	  The skeleton of a handler is its control-flow tree with everything but effects removed
//	  (see lean/Nsq/Model/AdminGate.lean). Calls to other methods of the receiver type are inlined;
//	  effects inside conditions are hoisted in front of the `if`; a statement the extractor does not
//	  understand becomes `Skel.unknown` (nothing can be proved through it) — never dropped.
//
//	adminpred {"name","dir","func"}
//	    → def <name> (conf : Conf) (req : Req) : Bool         translation of isAuthorizedAdminRequest
//	  accepted subset: `x := e`, `if c { return b }`, `for _, v := range xs { if c { return true } }`,
//	  `return b`; expressions over getOpts().AdminUsers / .ACLHTTPHeader, req.Header.Get, len, ==, !=, !.

import (
	"fmt"
	"go/ast"
	"go/token"
	"strconv"
	"strings"

	"golang.org/x/tools/go/packages"
)

func init() {
	register("adminroutes", kindAdminRoutes)
	register("adminpred", kindAdminPred)
}

// ---------------------------------------------------------------- skeleton trees

type skel interface{ render(sb *strings.Builder, ind int) }

type sRet struct{ code int }
type sEff struct {
	eff string
	k   skel
}
type sIte struct {
	cond string
	t, e skel
}
type sUnknown struct{ why string }

func pad(n int) string { return strings.Repeat(" ", n) }

func skelText(s skel) string {
	var sb strings.Builder
	s.render(&sb, 0)
	return sb.String()
}

// mkIte drops a test whose two branches are the same tree (conditions have no effects).
func mkIte(cond string, t, e skel) skel {
	if skelText(t) == skelText(e) {
		return t
	}
	return sIte{cond, t, e}
}

func (s sRet) render(sb *strings.Builder, ind int) {
	fmt.Fprintf(sb, "(.ret %d)", s.code)
}
func (s sEff) render(sb *strings.Builder, ind int) {
	fmt.Fprintf(sb, "(.eff %s\n%s", s.eff, pad(ind))
	s.k.render(sb, ind)
	sb.WriteString(")")
}
func (s sIte) render(sb *strings.Builder, ind int) {
	fmt.Fprintf(sb, "(.ite %s\n%s", s.cond, pad(ind+2))
	s.t.render(sb, ind+2)
	fmt.Fprintf(sb, "\n%s", pad(ind+2))
	s.e.render(sb, ind+2)
	sb.WriteString(")")
}
func (s sUnknown) render(sb *strings.Builder, ind int) {
	fmt.Fprintf(sb, "(.unknown %s)", leanStr(s.why))
}

// ---------------------------------------------------------------- conversion context

type axCtx struct {
	p       *packages.Package
	recv    string // receiver type name, e.g. httpServer
	auth    string // isAuthorizedAdminRequest
	methods map[string]*ast.FuncDecl
	funcs   map[string]*ast.FuncDecl // package-level functions
	depth   int
}

// axEnv is the (immutable, copied on change) environment along a path.
type axEnv struct {
	subst  map[string]string // local identifier → normalised expression text
	okSrc  string            // what the variable `ok` was last assigned from
	retK   func(env axEnv, results []ast.Expr) skel
	breakK func() skel
	labels map[string]func() skel
	recvN  string // name of the receiver variable in this function (s)
	locals map[string]bool // locals of this function that hold a value of their own (`opts := *s.nsqadmin.getOpts()`)
}

func (e axEnv) withLocal(k string) axEnv {
	m := make(map[string]bool, len(e.locals)+1)
	for a := range e.locals {
		m[a] = true
	}
	m[k] = true
	e.locals = m
	return e
}

func rootIdent(e ast.Expr) *ast.Ident {
	for {
		switch v := e.(type) {
		case *ast.Ident:
			return v
		case *ast.SelectorExpr:
			e = v.X
		case *ast.IndexExpr:
			e = v.X
		case *ast.StarExpr:
			e = v.X
		case *ast.ParenExpr:
			e = v.X
		default:
			return nil
		}
	}
}

// ownLocal: the target of an assignment lives in a local that is a copy (not an alias of the request / options).
func (e axEnv) ownLocal(l ast.Expr) bool {
	id := rootIdent(l)
	if id == nil {
		return false
	}
	_, aliased := e.subst[id.Name]
	return e.locals[id.Name] && !aliased
}

func (e axEnv) withSubst(k, v string) axEnv {
	m := make(map[string]string, len(e.subst)+1)
	for a, b := range e.subst {
		m[a] = b
	}
	m[k] = v
	e.subst = m
	return e
}

func memo(f func() skel) func() skel {
	var v skel
	done := false
	return func() skel {
		if !done {
			v = f()
			done = true
		}
		return v
	}
}

// text renders an expression with local identifiers substituted and option reads normalised.
func (x *axCtx) text(env axEnv, e ast.Expr) string {
	var t string
	switch v := e.(type) {
	case *ast.Ident:
		if s, ok := env.subst[v.Name]; ok {
			t = s
		} else if v.Name == env.recvN && env.recvN != "" {
			t = "s"
		} else {
			t = v.Name
		}
	case *ast.BasicLit:
		t = v.Value
	case *ast.ParenExpr:
		t = "(" + x.text(env, v.X) + ")"
	case *ast.SelectorExpr:
		t = x.text(env, v.X) + "." + v.Sel.Name
	case *ast.UnaryExpr:
		t = v.Op.String() + x.text(env, v.X)
	case *ast.BinaryExpr:
		t = x.text(env, v.X) + " " + v.Op.String() + " " + x.text(env, v.Y)
	case *ast.CallExpr:
		args := make([]string, len(v.Args))
		for i, a := range v.Args {
			args[i] = x.text(env, a)
		}
		t = x.text(env, v.Fun) + "(" + strings.Join(args, ", ") + ")"
	case *ast.StarExpr:
		t = "*" + x.text(env, v.X)
	case *ast.IndexExpr:
		t = x.text(env, v.X) + "[" + x.text(env, v.Index) + "]"
	default:
		t = exprText(x.p.Fset, e)
	}
	t = strings.ReplaceAll(t, "s.nsqadmin.getOpts().", "opts.")
	return t
}

// ---------------------------------------------------------------- effects inside expressions

type effCall struct {
	lean   string // Lean term of type Eff
	isAuth bool
	setErr bool
}

// classifyCall returns the effect of one call expression (nil = pure / not tracked).
func (x *axCtx) classifyCall(env axEnv, c *ast.CallExpr, inLoop bool) (*effCall, *ast.FuncDecl) {
	fn := x.text(env, c.Fun)
	up := ".upstream"
	if inLoop {
		up = ".upstreamMany"
	}
	switch {
	case fn == "s."+x.auth:
		return &effCall{lean: "(.pureCall " + leanStr(x.auth) + ")", isAuth: true}, nil
	case strings.HasPrefix(fn, "s.ci."):
		return &effCall{lean: "(" + up + " " + leanStr(strings.TrimPrefix(fn, "s.ci.")) + ")", setErr: true}, nil
	case strings.HasPrefix(fn, "s.client."):
		return &effCall{lean: "(" + up + " " + leanStr("client."+strings.TrimPrefix(fn, "s.client.")) + ")", setErr: true}, nil
	case strings.HasPrefix(fn, "http.") && fn != "http.Error":
		return &effCall{lean: "(" + up + " " + leanStr("net/"+fn) + ")", setErr: true}, nil
	case strings.HasSuffix(fn, ".Decode") && strings.Contains(fn, "req.Body"):
		return &effCall{lean: ".decodeBody", setErr: true}, nil
	case fn == "io.ReadAll" || fn == "ioutil.ReadAll":
		if len(c.Args) == 1 && strings.Contains(x.text(env, c.Args[0]), "req.Body") {
			return &effCall{lean: ".readBody", setErr: true}, nil
		}
	case fn == "s.nsqadmin.swapOpts":
		return &effCall{lean: ".configWrite"}, nil
	}
	if strings.HasPrefix(fn, "s.") && !strings.Contains(strings.TrimPrefix(fn, "s."), ".") {
		if fd, ok := x.methods[strings.TrimPrefix(fn, "s.")]; ok {
			return nil, fd
		}
	}
	return nil, nil
}

// collect returns the tracked effects of an expression / statement in evaluation order
// (arguments before the call). Receiver methods met on the way cannot be inlined inside an
// expression: they are reported through `opaqueM`.
func (x *axCtx) collect(env axEnv, n ast.Node, inLoop bool) (effs []*effCall, opaqueM []string) {
	var walk func(n ast.Node)
	walk = func(n ast.Node) {
		if n == nil {
			return
		}
		switch v := n.(type) {
		case *ast.CallExpr:
			walk(v.Fun)
			for _, a := range v.Args {
				walk(a)
			}
			if why := x.reqWrite(env, v); why != "" {
				opaqueM = append(opaqueM, why)
				return
			}
			ec, fd := x.classifyCall(env, v, inLoop)
			if ec != nil {
				effs = append(effs, ec)
			} else if fd != nil {
				if x.methodIsPure(fd) {
					return
				}
				opaqueM = append(opaqueM, fd.Name.Name)
			} else if id, ok := v.Fun.(*ast.Ident); ok {
				if fd, ok := x.funcs[id.Name]; ok && !x.funcIsPure(fd) {
					opaqueM = append(opaqueM, id.Name)
				}
			}
			return
		case *ast.SendStmt:
			walk(v.Value)
			if strings.HasSuffix(x.text(env, v.Chan), ".notifications") {
				a := env.subst["action"]
				if s, err := strconv.Unquote(a); err == nil {
					effs = append(effs, &effCall{lean: "(.notify " + leanStr(s) + ")"})
				} else {
					effs = append(effs, &effCall{lean: "(.notify " + leanStr("?"+a) + ")"})
				}
			}
			return
		}
		ast.Inspect(n, func(m ast.Node) bool {
			if m == n || m == nil {
				return true
			}
			switch m.(type) {
			case *ast.CallExpr, *ast.SendStmt:
				walk(m)
				return false
			}
			return true
		})
	}
	walk(n)
	return
}

// ---------------------------------------------------------------- writes to the request / the options
//
// The admin check reads `req.Header` and the options. A handler that changes either before the
// check (`req.Header.Set(acl, …)`, `req.Header[k] = …`, `opts.AdminUsers = nil`, handing `req` to a
// function the extractor cannot see into) decides the outcome of the check itself: such a statement
// is never summarised, it becomes `Skel.unknown`.

// reqReadOnly: methods reachable from `req` that do not change what the admin check reads.
var reqReadOnly = []string{"req.Header.Get", "req.Header.Values", "req.Header.Clone", "req.URL.Query", "req.URL.String",
	"req.URL.EscapedPath", "req.URL.RequestURI", "req.UserAgent", "req.BasicAuth", "req.Context", "req.Cookie",
	"req.Cookies", "req.Referer", "req.FormValue", "req.PostFormValue", "req.ParseForm", "req.Body.Close", "req.Body.Read",
	"req.ProtoAtLeast"}

// reqSafeCallees: functions outside the package that may be handed `req` (they read the query and the body).
var reqSafeCallees = []string{"http_api.NewReqParams"}

// reqHandles: argument texts through which a callee could change the request.
func reqHandle(t string) bool {
	t = strings.TrimPrefix(t, "&")
	t = strings.TrimPrefix(t, "*")
	switch t {
	case "req", "req.Header", "req.URL", "req.Form", "req.PostForm", "req.Trailer", "req.MultipartForm":
		return true
	}
	return false
}

// stateLhs: is an assignment target part of the request or of the options / server state?
func stateLhs(t string) string {
	t = strings.TrimLeft(t, "*&(")
	switch {
	case t == "req" || strings.HasPrefix(t, "req.") || strings.HasPrefix(t, "req["):
		return "request"
	case strings.HasPrefix(t, "opts.") || strings.Contains(t, "getOpts()") || strings.HasPrefix(t, "s.nsqadmin.") || t == "s.nsqadmin":
		return "options"
	case strings.HasPrefix(t, "s.") && !strings.HasPrefix(t, "s.nsqadmin"):
		return "server"
	}
	return ""
}

// reqWrite: does this call (possibly) change the request? "" = no.
func (x *axCtx) reqWrite(env axEnv, c *ast.CallExpr) string {
	fn := x.text(env, c.Fun)
	if strings.HasPrefix(fn, "req.") {
		ok := false
		for _, r := range reqReadOnly {
			if fn == r || strings.HasPrefix(fn, r+"().") || strings.HasPrefix(fn, r+"(") {
				ok = true
			}
		}
		if !ok {
			return "request-modifying " + fn
		}
	}
	if fn == "delete" && len(c.Args) > 0 && stateLhs(x.text(env, c.Args[0])) != "" {
		return "request-modifying delete(" + x.text(env, c.Args[0]) + ")"
	}
	for _, a := range c.Args {
		at := x.text(env, a)
		if !reqHandle(at) {
			continue
		}
		if fn == "s."+x.auth {
			continue
		}
		safe := false
		for _, r := range reqSafeCallees {
			if fn == r {
				safe = true
			}
		}
		if safe {
			continue
		}
		// receiver methods are inlined or scanned (methodIsPure); package-level functions are scanned (funcIsPure)
		if strings.HasPrefix(fn, "s.") && !strings.Contains(strings.TrimPrefix(fn, "s."), ".") {
			if _, ok := x.methods[strings.TrimPrefix(fn, "s.")]; ok {
				continue
			}
		}
		if id, ok := c.Fun.(*ast.Ident); ok {
			if fd, ok := x.funcs[id.Name]; ok {
				if x.funcIsPure(fd) {
					continue
				}
				return "request handed to " + fn + ", which is not read-only"
			}
		}
		return "request handed to " + fn
	}
	return ""
}

// writesState: textual scan of a function body for statements that change a request / the options.
var stateWriteMarks = []string{".Header.Set(", ".Header.Add(", ".Header.Del(", ".Header[", ".Header =", ".SetBasicAuth(", ".AddCookie(",
	".AdminUsers =", ".ACLHTTPHeader =", ".AdminUsers[", "swapOpts", ".Form.Set(", ".URL =", "*req =", "*r ="}

var pureMemo = map[*ast.FuncDecl]int{}

// funcIsPure: a package-level function whose body mentions no tracked effect.
func (x *axCtx) funcIsPure(fd *ast.FuncDecl) bool {
	if v, ok := pureMemo[fd]; ok {
		return v == 1
	}
	pureMemo[fd] = 1 // recursion: optimistic
	txt := exprText(x.p.Fset, fd.Body)
	pure := true
	for _, bad := range append([]string{".ci.", ".client.", "http.Get", "http.Post", "http.NewRequest", ".Do(", "swapOpts", ".notifications", "clusterinfo.New"}, stateWriteMarks...) {
		if strings.Contains(txt, bad) {
			pure = false
		}
	}
	if pure {
		ast.Inspect(fd.Body, func(n ast.Node) bool {
			if c, ok := n.(*ast.CallExpr); ok {
				if id, ok := c.Fun.(*ast.Ident); ok {
					if g, ok := x.funcs[id.Name]; ok && g != fd && !x.funcIsPure(g) {
						pure = false
					}
				}
			}
			return true
		})
	}
	if pure {
		pureMemo[fd] = 1
	} else {
		pureMemo[fd] = 2
	}
	return pure
}

func (x *axCtx) methodIsPure(fd *ast.FuncDecl) bool {
	if fd.Name.Name == x.auth {
		return false
	}
	if fd.Body == nil {
		return true
	}
	txt := exprText(x.p.Fset, fd.Body)
	for _, bad := range append([]string{".ci.", ".client.", "http.", ".Do(", "swapOpts", ".notifications", x.auth, "req.Body"}, stateWriteMarks...) {
		if strings.Contains(txt, bad) {
			return false
		}
	}
	// calls to other receiver methods
	pure := true
	ast.Inspect(fd.Body, func(n ast.Node) bool {
		if c, ok := n.(*ast.CallExpr); ok {
			if se, ok := c.Fun.(*ast.SelectorExpr); ok {
				if _, ok := x.methods[se.Sel.Name]; ok {
					if id, ok := se.X.(*ast.Ident); ok && fd.Recv != nil && len(fd.Recv.List) == 1 &&
						len(fd.Recv.List[0].Names) == 1 && id.Name == fd.Recv.List[0].Names[0].Name {
						pure = false
					}
				}
			}
		}
		return true
	})
	return pure
}

// ---------------------------------------------------------------- conditions

// condSkel builds `if cond then t else e` for a (possibly compound) Go condition.
func (x *axCtx) condSkel(env axEnv, c ast.Expr, t, e skel) skel {
	switch v := c.(type) {
	case *ast.ParenExpr:
		return x.condSkel(env, v.X, t, e)
	case *ast.UnaryExpr:
		if v.Op == token.NOT {
			if _, isParen := v.X.(*ast.ParenExpr); isParen {
				return x.condSkel(env, v.X, e, t)
			}
			if b, ok := v.X.(*ast.BinaryExpr); ok && (b.Op == token.LAND || b.Op == token.LOR) {
				return x.condSkel(env, v.X, e, t)
			}
		}
	case *ast.BinaryExpr:
		if v.Op == token.LAND {
			return x.condSkel(env, v.X, x.condSkel(env, v.Y, t, e), e)
		}
		if v.Op == token.LOR {
			return x.condSkel(env, v.X, t, x.condSkel(env, v.Y, t, e))
		}
	}
	txt := x.text(env, c)
	lean, neg, konst := x.classifyCond(env, txt)
	if konst == 1 {
		return t
	}
	if konst == 2 {
		return e
	}
	if neg {
		return mkIte(lean, e, t)
	}
	return mkIte(lean, t, e)
}

func unq(s string) (string, bool) {
	r, err := strconv.Unquote(s)
	return r, err == nil
}

// classifyCond maps normalised condition text to a Lean `Cond`; neg = the Lean condition is the
// negation of the Go one; konst = 1/2 when the condition is constantly true/false after inlining.
func (x *axCtx) classifyCond(env axEnv, t string) (lean string, neg bool, konst int) {
	authCall := "s." + x.auth + "(req)"
	switch t {
	case "!" + authCall:
		return ".notAdmin", false, 0
	case authCall:
		return ".notAdmin", true, 0
	case "err != nil":
		return ".errNotNil", false, 0
	case "err == nil":
		return ".errNotNil", true, 0
	case "!ok":
		if env.okSrc == "PartialErr" {
			return ".errNotPartial", false, 0
		}
		return "(.other " + leanStr("!ok:"+env.okSrc) + ")", false, 0
	case "ok":
		if env.okSrc == "PartialErr" {
			return ".errNotPartial", true, 0
		}
		return "(.other " + leanStr("!ok:"+env.okSrc) + ")", true, 0
	case `opts.AllowConfigFromCIDR != ""`:
		return ".cidrSet", false, 0
	case `opts.AllowConfigFromCIDR == ""`:
		return ".cidrSet", true, 0
	case "!ipnet.Contains(ip)":
		return ".notInNet", false, 0
	case "ipnet.Contains(ip)":
		return ".notInNet", true, 0
	case `opts.NotificationHTTPEndpoint == ""`:
		return ".notifyOn", true, 0
	case `opts.NotificationHTTPEndpoint != ""`:
		return ".notifyOn", false, 0
	case "len(opts.NSQLookupdHTTPAddresses) != 0", "len(opts.NSQLookupdHTTPAddresses) > 0":
		return ".lookupdMode", false, 0
	case "len(opts.NSQLookupdHTTPAddresses) == 0":
		return ".lookupdMode", true, 0
	}
	for _, op := range []string{" == ", " != "} {
		if i := strings.Index(t, op); i > 0 {
			l, r := t[:i], t[i+len(op):]
			isNe := op == " != "
			ls, lok := unq(l)
			rs, rok := unq(r)
			if lok && rok { // constant after inlining a helper's arguments
				if (ls == rs) != isNe {
					return "", false, 1
				}
				return "", false, 2
			}
			if l == "req.Method" && rok {
				return "(.methodIs " + leanStr(rs) + ")", isNe, 0
			}
			if strings.HasPrefix(l, `ps.ByName("`) && strings.HasSuffix(l, `")`) && rok && rs == "" {
				p := l[len(`ps.ByName("`) : len(l)-2]
				return "(.paramNonEmpty " + leanStr(p) + ")", !isNe, 0
			}
		}
	}
	if strings.HasPrefix(t, "len(body.") && strings.HasSuffix(t, ") > 0") {
		f := t[len("len(body.") : len(t)-len(") > 0")]
		return "(.bodyFieldNonEmpty " + leanStr(f) + ")", false, 0
	}
	if x.identityText(t) {
		return "(.identityDep " + leanStr(t) + ")", false, 0
	}
	return "(.other " + leanStr(t) + ")", false, 0
}

// identityText: does an expression read what the admin check is made of — the request headers, the admin
// list, the ACL header name, the outcome of the check — other than as the bare check?
func (x *axCtx) identityText(t string) bool {
	for _, m := range []string{"req.Header", "opts.AdminUsers", "opts.ACLHTTPHeader", ".AdminUsers", ".ACLHTTPHeader",
		"s." + x.auth + "(", "req.BasicAuth", "basicAuthUser(", "req.Cookie", "req.Cookies", "req.Referer", "req.UserAgent"} {
		if strings.Contains(t, m) {
			return true
		}
	}
	return false
}

// ---------------------------------------------------------------- statements

func prependEffs(effs []*effCall, k skel) skel {
	for i := len(effs) - 1; i >= 0; i-- {
		k = sEff{effs[i].lean, k}
	}
	return k
}

func (x *axCtx) block(env axEnv, stmts []ast.Stmt, k func() skel) skel {
	// labels of this block (forward gotos only)
	if len(stmts) > 0 {
		var lab map[string]func() skel
		for j, st := range stmts {
			if ls, ok := st.(*ast.LabeledStmt); ok {
				if lab == nil {
					lab = map[string]func() skel{}
					for a, b := range env.labels {
						lab[a] = b
					}
				}
				j, ls := j, ls
				envAt := env
				lab[ls.Label.Name] = memo(func() skel {
					rest := append([]ast.Stmt{ls.Stmt}, stmts[j+1:]...)
					e2 := envAt
					e2.labels = lab
					delete(lab, ls.Label.Name) // a backward jump would loop: becomes unknown
					return x.block(e2, rest, k)
				})
			}
		}
		if lab != nil {
			env.labels = lab
		}
	}
	return x.stmts(env, stmts, k)
}

func (x *axCtx) stmts(env axEnv, stmts []ast.Stmt, k func() skel) skel {
	if len(stmts) == 0 {
		return k()
	}
	st := stmts[0]
	restOf := func(e axEnv) func() skel {
		return memo(func() skel { return x.stmts(e, stmts[1:], k) })
	}
	switch v := st.(type) {
	case *ast.EmptyStmt:
		return restOf(env)()
	case *ast.IncDecStmt:
		if w := stateLhs(x.text(env, v.X)); w != "" {
			return sUnknown{w + " modified: " + x.text(env, v.X) + v.Tok.String()}
		}
		return restOf(env)()
	case *ast.LabeledStmt:
		return x.stmts(env, append([]ast.Stmt{v.Stmt}, stmts[1:]...), k)
	case *ast.BlockStmt:
		return x.block(env, v.List, restOf(env))
	case *ast.DeclStmt:
		effs, om := x.collect(env, v, false)
		if len(om) > 0 {
			return sUnknown{"call of " + om[0] + " inside a declaration"}
		}
		return prependEffs(effs, restOf(env)())
	case *ast.ReturnStmt:
		return env.retK(env, v.Results)
	case *ast.BranchStmt:
		switch v.Tok {
		case token.GOTO:
			if f, ok := env.labels[v.Label.Name]; ok {
				return f()
			}
			return sUnknown{"goto " + v.Label.Name}
		case token.BREAK:
			if v.Label == nil && env.breakK != nil {
				return env.breakK()
			}
		}
		return sUnknown{"branch " + v.Tok.String()}
	case *ast.ExprStmt:
		if c, ok := v.X.(*ast.CallExpr); ok {
			if ec, fd := x.classifyCall(env, c, false); ec == nil && fd != nil && !x.methodIsPure(fd) {
				argEffs, om := x.collectArgs(env, c)
				if len(om) > 0 {
					return sUnknown{"call of " + om[0] + " inside arguments"}
				}
				rest := restOf(env)
				return prependEffs(argEffs, x.inline(env, fd, c, func(e2 axEnv, results []ast.Expr) skel { return rest() }))
			}
		}
		effs, om := x.collect(env, v, false)
		if len(om) > 0 {
			return sUnknown{"call of " + om[0] + " inside an expression"}
		}
		return prependEffs(effs, restOf(env)())
	case *ast.GoStmt:
		effs, om := x.collect(env, v.Call, false)
		if len(om) > 0 {
			return sUnknown{"call of " + om[0] + " inside a go statement"}
		}
		return prependEffs(effs, restOf(env)())
	case *ast.SendStmt:
		effs, _ := x.collect(env, v, false)
		return prependEffs(effs, restOf(env)())
	case *ast.AssignStmt:
		for _, l := range v.Lhs {
			if id, ok := l.(*ast.Ident); ok && v.Tok == token.DEFINE && id.Name != "req" {
				continue // a new local
			}
			if env.ownLocal(l) {
				continue
			}
			if w := stateLhs(x.text(env, l)); w != "" {
				return sUnknown{w + " modified: " + x.text(env, l) + " " + v.Tok.String() + " …"}
			}
		}
		effs, om := x.collect(env, v, false)
		if len(om) > 0 {
			return sUnknown{"call of " + om[0] + " inside an assignment"}
		}
		e2 := env
		definesErr, definesOk := false, false
		for _, l := range v.Lhs {
			if id, ok := l.(*ast.Ident); ok {
				if id.Name == "err" {
					definesErr = true
				}
				if id.Name == "ok" {
					definesOk = true
				}
			}
		}
		if definesOk && len(v.Rhs) == 1 {
			if ta, ok := v.Rhs[0].(*ast.TypeAssertExpr); ok && strings.HasSuffix(exprText(x.p.Fset, ta.Type), "PartialErr") &&
				x.text(env, ta.X) == "err" {
				e2.okSrc = "PartialErr"
			} else {
				e2.okSrc = x.text(env, v.Rhs[0])
			}
		}
		if v.Tok == token.DEFINE {
			for i, l := range v.Lhs {
				id, ok := l.(*ast.Ident)
				if !ok || id.Name == "_" || id.Name == "req" {
					continue
				}
				// a pointer / map alias keeps pointing at the request or the options: only value copies count
				alias := false
				if len(v.Rhs) == len(v.Lhs) {
					rt := x.text(env, v.Rhs[i])
					_, isStar := v.Rhs[i].(*ast.StarExpr)
					if simpleExpr(v.Rhs[i]) || (!isStar && (reqHandle(rt) || strings.HasSuffix(rt, "getOpts()") || strings.HasPrefix(rt, "&"))) {
						alias = true
					}
				}
				if !alias {
					e2 = e2.withLocal(id.Name)
					if _, had := e2.subst[id.Name]; had {
						m := make(map[string]string, len(e2.subst))
						for a, b := range e2.subst {
							if a != id.Name {
								m[a] = b
							}
						}
						e2.subst = m
					}
				}
			}
		}
		if len(v.Lhs) == 1 && len(v.Rhs) == 1 {
			if id, ok := v.Lhs[0].(*ast.Ident); ok && id.Name != "_" && id.Name != "err" {
				if simpleExpr(v.Rhs[0]) {
					e2 = e2.withSubst(id.Name, x.text(env, v.Rhs[0]))
				} else if rt := x.text(env, v.Rhs[0]); x.identityText(rt) {
					// a variable that holds the outcome of the admin check, or data the check is made of
					// (`isAdmin := s.isAuthorizedAdminRequest(req)`, `u := req.Header.Get(h)`): conditions on
					// it are conditions on the identity — keep the expression, not the name
					if rt == "s."+x.auth+"(req)" || rt == "!s."+x.auth+"(req)" {
						e2 = e2.withSubst(id.Name, rt)
					} else {
						e2 = e2.withSubst(id.Name, "("+rt+")")
					}
				} else if _, had := e2.subst[id.Name]; had {
					e2 = e2.withSubst(id.Name, id.Name+"'")
				}
			}
		}
		if len(v.Lhs) > 1 && len(v.Rhs) == 1 {
			if rt := x.text(env, v.Rhs[0]); x.identityText(rt) {
				for i, l := range v.Lhs {
					if id, ok := l.(*ast.Ident); ok && id.Name != "_" && id.Name != "err" {
						e2 = e2.withSubst(id.Name, fmt.Sprintf("(%s)#%d", rt, i))
					}
				}
			}
		}
		if definesErr && len(v.Rhs) == 1 {
			setsErr := false
			for _, e := range effs {
				if e.setErr {
					setsErr = true
				}
			}
			if !setsErr {
				if c, ok := v.Rhs[0].(*ast.CallExpr); ok {
					effs = append(effs, &effCall{lean: "(.localCall " + leanStr(x.text(env, c.Fun)) + ")", setErr: true})
				}
			}
		}
		return prependEffs(effs, restOf(e2)())
	case *ast.IfStmt:
		if v.Init != nil {
			inner := &ast.IfStmt{If: v.If, Cond: v.Cond, Body: v.Body, Else: v.Else}
			return x.stmts(env, append([]ast.Stmt{v.Init, inner}, stmts[1:]...), k)
		}
		rest := restOf(env)
		thenS := x.block(env, v.Body.List, rest)
		var elseS skel
		switch el := v.Else.(type) {
		case nil:
			elseS = rest()
		case *ast.BlockStmt:
			elseS = x.block(env, el.List, rest)
		case *ast.IfStmt:
			elseS = x.stmts(env, []ast.Stmt{el}, rest)
		}
		// effects inside the condition (other than the bare admin check) are hoisted
		var hoist []*effCall
		effs, om := x.collect(env, v.Cond, false)
		if len(om) > 0 {
			return sUnknown{"call of " + om[0] + " inside a condition"}
		}
		ct := x.text(env, v.Cond)
		bareAuth := ct == "!s."+x.auth+"(req)" || ct == "s."+x.auth+"(req)"
		if !bareAuth && strings.Contains(ct, "s."+x.auth+"(") {
			return sUnknown{"admin check inside a compound condition: " + ct}
		}
		for _, e := range effs {
			if e.isAuth && bareAuth {
				continue
			}
			if e.isAuth {
				return sUnknown{"admin check inside a compound condition: " + ct}
			}
			hoist = append(hoist, e)
		}
		return prependEffs(hoist, x.condSkel(env, v.Cond, thenS, elseS))
	case *ast.SwitchStmt:
		if v.Init != nil {
			return sUnknown{"switch with init"}
		}
		rest := restOf(env)
		e2 := env
		e2.breakK = rest
		var tag string
		if v.Tag != nil {
			effs, om := x.collect(env, v.Tag, false)
			if len(effs) > 0 || len(om) > 0 {
				return sUnknown{"effect inside a switch tag"}
			}
			tag = x.text(env, v.Tag)
		}
		var deflt skel
		type arm struct {
			conds []ast.Expr
			body  skel
		}
		var arms []arm
		for _, cc := range v.Body.List {
			cl := cc.(*ast.CaseClause)
			for _, s := range cl.Body {
				if b, ok := s.(*ast.BranchStmt); ok && b.Tok == token.FALLTHROUGH {
					return sUnknown{"fallthrough"}
				}
			}
			body := x.block(e2, cl.Body, rest)
			if cl.List == nil {
				deflt = body
			} else {
				arms = append(arms, arm{cl.List, body})
			}
		}
		if deflt == nil {
			deflt = rest()
		}
		out := deflt
		for i := len(arms) - 1; i >= 0; i-- {
			for j := len(arms[i].conds) - 1; j >= 0; j-- {
				ce := arms[i].conds[j]
				if effs, om := x.collect(env, ce, false); len(effs) > 0 || len(om) > 0 {
					return sUnknown{"effect inside a case expression"}
				}
				if v.Tag == nil {
					out = x.condSkel(env, ce, arms[i].body, out)
					continue
				}
				lit, isLit := unq(x.text(env, ce))
				switch {
				case tag == "body.Action" && isLit:
					out = mkIte("(.actionIs "+leanStr(lit)+")", arms[i].body, out)
				case tag == `ps.ByName("opt")` && isLit:
					out = mkIte("(.optIs "+leanStr(lit)+")", arms[i].body, out)
				default:
					ck := ".other "
					if x.identityText(tag + " == " + x.text(env, ce)) {
						ck = ".identityDep "
					}
					out = mkIte("("+ck+leanStr(tag+" == "+x.text(env, ce))+")", arms[i].body, out)
				}
			}
		}
		return out
	case *ast.ForStmt, *ast.RangeStmt:
		// A loop is summarised: its tracked effects happen zero or more times (`upstreamMany`), and every `return`
		// inside it is a way out that may or may not be taken (an opaque test per return statement, then the
		// skeleton of that return). Conditions inside the body are not kept — so a body that looks at the identity
		// is not summarised at all.
		bad := false
		var rets []*ast.ReturnStmt
		ast.Inspect(v, func(n ast.Node) bool {
			switch b := n.(type) {
			case *ast.ReturnStmt:
				rets = append(rets, b)
			case *ast.GoStmt, *ast.DeferStmt:
				bad = true
			case *ast.BranchStmt:
				if b.Tok == token.GOTO {
					bad = true
				}
			case *ast.FuncLit:
				return false
			}
			return true
		})
		if bad {
			return sUnknown{"loop with goto/go/defer"}
		}
		if x.identityText(exprText(x.p.Fset, v)) {
			return sUnknown{"loop whose body reads the identity"}
		}
		effs, om := x.collect(env, v, true)
		if len(om) > 0 {
			return sUnknown{"call of " + om[0] + " inside a loop"}
		}
		for _, e := range effs {
			if e.isAuth {
				return sUnknown{"admin check inside a loop"}
			}
		}
		out := restOf(env)()
		for i := len(rets) - 1; i >= 0; i-- {
			var leaf skel
			if es, om := x.collect(env, rets[i], true); len(es) > 0 || len(om) > 0 {
				leaf = sUnknown{"effect inside a return inside a loop"}
			} else {
				leaf = env.retK(env, rets[i].Results)
			}
			out = mkIte("(.other "+leanStr(fmt.Sprintf("loop left by return #%d: %s", i+1, exprText(x.p.Fset, rets[i])))+")", leaf, out)
		}
		return prependEffs(effs, out)
	}
	return sUnknown{fmt.Sprintf("statement %T", st)}
}

func simpleExpr(e ast.Expr) bool {
	switch v := e.(type) {
	case *ast.BasicLit, *ast.Ident:
		return true
	case *ast.SelectorExpr:
		return simpleExpr(v.X)
	case *ast.CallExpr:
		t := ""
		if se, ok := v.Fun.(*ast.SelectorExpr); ok {
			t = se.Sel.Name
		}
		if t == "ByName" || t == "getOpts" {
			return true
		}
	}
	return false
}

func (x *axCtx) collectArgs(env axEnv, c *ast.CallExpr) (effs []*effCall, om []string) {
	for _, a := range c.Args {
		e, o := x.collect(env, a, false)
		effs = append(effs, e...)
		om = append(om, o...)
	}
	return
}

// inline converts the body of receiver method fd called as `c` with return continuation retK.
func (x *axCtx) inline(env axEnv, fd *ast.FuncDecl, c *ast.CallExpr, retK func(env axEnv, results []ast.Expr) skel) skel {
	if x.depth > 6 {
		return sUnknown{"inlining too deep at " + fd.Name.Name}
	}
	x.depth++
	defer func() { x.depth-- }()
	e2 := axEnv{subst: map[string]string{}, retK: retK, labels: map[string]func() skel{}}
	if fd.Recv != nil && len(fd.Recv.List) == 1 && len(fd.Recv.List[0].Names) == 1 {
		e2.recvN = fd.Recv.List[0].Names[0].Name
	}
	i := 0
	for _, f := range fd.Type.Params.List {
		for _, n := range f.Names {
			if c != nil && i < len(c.Args) {
				e2.subst[n.Name] = x.text(env, c.Args[i])
			}
			i++
		}
	}
	return x.block(e2, fd.Body.List, func() skel { return retK(e2, nil) })
}

// handlerRet: `return v, nil` → 200; `return nil, http_api.Err{code, …}` → code;
// `return s.helper(…)` → the helper inlined.
func (x *axCtx) handlerRet(env axEnv, results []ast.Expr) skel {
	if len(results) == 1 {
		if c, ok := results[0].(*ast.CallExpr); ok {
			if ec, fd := x.classifyCall(env, c, false); ec == nil && fd != nil {
				argEffs, om := x.collectArgs(env, c)
				if len(om) > 0 {
					return sUnknown{"call of " + om[0] + " inside arguments"}
				}
				return prependEffs(argEffs, x.inline(env, fd, c, x.handlerRet))
			}
		}
		return sUnknown{"return " + x.text(env, results[0])}
	}
	if len(results) != 2 {
		return sUnknown{"handler falls off its end / bare return"}
	}
	effs, om := x.collect(env, results[0], false)
	e1, om1 := x.collect(env, results[1], false)
	effs = append(effs, e1...)
	if len(om)+len(om1) > 0 {
		return sUnknown{"call inside a return"}
	}
	var leaf skel
	switch r := results[1].(type) {
	case *ast.Ident:
		if r.Name == "nil" {
			leaf = sRet{200}
		}
	case *ast.CompositeLit:
		if strings.HasSuffix(exprText(x.p.Fset, r.Type), "http_api.Err") && len(r.Elts) >= 1 {
			el := r.Elts[0]
			if kv, ok := el.(*ast.KeyValueExpr); ok {
				for _, e := range r.Elts {
					if kv2, ok := e.(*ast.KeyValueExpr); ok && exprText(x.p.Fset, kv2.Key) == "Code" {
						kv = kv2
					}
				}
				el = kv.Value
			}
			if bl, ok := el.(*ast.BasicLit); ok && bl.Kind == token.INT {
				if n, err := strconv.Atoi(bl.Value); err == nil {
					leaf = sRet{n}
				}
			}
		}
	}
	if leaf == nil {
		leaf = sUnknown{"return " + x.text(env, results[1])}
	}
	return prependEffs(effs, leaf)
}

// ---------------------------------------------------------------- the extractor

func kindAdminRoutes(c *Ctx, it Item) (string, error) {
	p, fd, err := c.FindFunc(it.Str("dir"), it.Str("func"))
	if err != nil {
		return "", err
	}
	x := &axCtx{p: p, recv: it.Str("recv"), auth: it.Str("auth"), methods: map[string]*ast.FuncDecl{}, funcs: map[string]*ast.FuncDecl{}}
	for _, f := range p.Syntax {
		if strings.HasSuffix(p.Fset.Position(f.Pos()).Filename, "_test.go") {
			continue
		}
		for _, d := range f.Decls {
			g, ok := d.(*ast.FuncDecl)
			if !ok || g.Body == nil {
				continue
			}
			if g.Recv == nil {
				x.funcs[g.Name.Name] = g
				continue
			}
			t := g.Recv.List[0].Type
			if s, ok := t.(*ast.StarExpr); ok {
				t = s.X
			}
			if id, ok := t.(*ast.Ident); ok && id.Name == x.recv {
				x.methods[g.Name.Name] = g
			}
		}
	}
	if _, ok := x.methods[x.auth]; !ok {
		return "", fmt.Errorf("admin predicate %s.%s not found", x.recv, x.auth)
	}
	type route struct {
		method, path, handler string
	}
	var routes []route
	var handlerOrder []string
	seen := map[string]bool{}
	var bad error
	ast.Inspect(fd.Body, func(n ast.Node) bool {
		call, ok := n.(*ast.CallExpr)
		if !ok {
			return true
		}
		se, ok := call.Fun.(*ast.SelectorExpr)
		if !ok {
			return true
		}
		recvTxt := exprText(p.Fset, se.X)
		if recvTxt != "router" && recvTxt != "s.router" {
			return true
		}
		var method string
		var pathE, hE ast.Expr
		switch se.Sel.Name {
		case "Handle", "Handler", "HandlerFunc":
			if len(call.Args) != 3 {
				bad = fmt.Errorf("router.%s with %d arguments", se.Sel.Name, len(call.Args))
				return false
			}
			m, ok := unq(exprText(p.Fset, call.Args[0]))
			if !ok {
				bad = fmt.Errorf("router.%s: method is not a literal: %s", se.Sel.Name, exprText(p.Fset, call.Args[0]))
				return false
			}
			method, pathE, hE = m, call.Args[1], call.Args[2]
		case "GET", "POST", "PUT", "DELETE", "PATCH", "HEAD", "OPTIONS":
			if len(call.Args) != 2 {
				bad = fmt.Errorf("router.%s with %d arguments", se.Sel.Name, len(call.Args))
				return false
			}
			method, pathE, hE = se.Sel.Name, call.Args[0], call.Args[1]
		case "ServeFiles", "Lookup", "ServeHTTP":
			if se.Sel.Name == "ServeFiles" {
				bad = fmt.Errorf("router.ServeFiles is not supported")
				return false
			}
			return true
		default:
			return true
		}
		// path: bp("<literal>") or a literal
		var pathLit string
		if pc, ok := pathE.(*ast.CallExpr); ok && len(pc.Args) == 1 {
			pathE = pc.Args[0]
		}
		pathLit, ok = unq(exprText(p.Fset, pathE))
		if !ok {
			bad = fmt.Errorf("route path is not a literal: %s", exprText(p.Fset, pathE))
			return false
		}
		// handler: http_api.Decorate(s.<h>, …) or anything else (kept as text, skeleton unknown)
		h := "expr:" + exprText(p.Fset, hE)
		if hc, ok := hE.(*ast.CallExpr); ok && exprText(p.Fset, hc.Fun) == "http_api.Decorate" && len(hc.Args) >= 1 {
			if hs, ok := hc.Args[0].(*ast.SelectorExpr); ok && exprText(p.Fset, hs.X) == "s" {
				h = hs.Sel.Name
			}
		}
		routes = append(routes, route{method, pathLit, h})
		if !seen[h] {
			seen[h] = true
			handlerOrder = append(handlerOrder, h)
		}
		return true
	})
	if bad != nil {
		return "", bad
	}
	if len(routes) == 0 {
		return "", fmt.Errorf("no route registration found in %s", it.Str("func"))
	}
	name := it.Str("name")
	var sb strings.Builder
	sb.WriteString("open Nsq.Model.AdminGate in\n")
	fmt.Fprintf(&sb, "def %sRoutes : List Nsq.Model.AdminGate.Route := [\n", name)
	for i, r := range routes {
		var segs []string
		for _, s := range strings.Split(r.path, "/") {
			if s != "" {
				segs = append(segs, s)
			}
		}
		sep := ","
		if i == len(routes)-1 {
			sep = ""
		}
		fmt.Fprintf(&sb, "  ⟨%s, %s, %s⟩%s\n", leanStr(r.method), leanStrList(segs), leanStr(r.handler), sep)
	}
	sb.WriteString("]\n\n")
	for _, h := range handlerOrder {
		var sk skel
		if mfd, ok := x.methods[h]; ok {
			sk = x.inline(axEnv{subst: map[string]string{}}, mfd, nil, x.handlerRet)
		} else {
			sk = sUnknown{"handler is not a method of " + x.recv + ": " + h}
		}
		fmt.Fprintf(&sb, "open Nsq.Model.AdminGate.Skel Nsq.Model.AdminGate.Cond Nsq.Model.AdminGate.Eff in\n")
		fmt.Fprintf(&sb, "def %sSkel_%s : Nsq.Model.AdminGate.Skel :=\n  ", name, leanIdent(h))
		sk.render(&sb, 2)
		sb.WriteString("\n\n")
	}
	fmt.Fprintf(&sb, "def %sHandlers : List (String × Nsq.Model.AdminGate.Skel) := [\n", name)
	for i, h := range handlerOrder {
		sep := ","
		if i == len(handlerOrder)-1 {
			sep = ""
		}
		fmt.Fprintf(&sb, "  (%s, %sSkel_%s)%s\n", leanStr(h), name, leanIdent(h), sep)
	}
	sb.WriteString("]\n")
	return sb.String(), nil
}

func leanIdent(s string) string {
	var sb strings.Builder
	for _, r := range s {
		if r >= 'a' && r <= 'z' || r >= 'A' && r <= 'Z' || r >= '0' && r <= '9' || r == '_' {
			sb.WriteRune(r)
		} else {
			sb.WriteRune('_')
		}
	}
	return sb.String()
}

// ---------------------------------------------------------------- adminpred

func kindAdminPred(c *Ctx, it Item) (string, error) {
	p, fd, err := c.FindFunc(it.Str("dir"), it.Str("func"))
	if err != nil {
		return "", err
	}
	body, err := predStmts(p, fd.Body.List)
	if err != nil {
		return "", err
	}
	var sb strings.Builder
	fmt.Fprintf(&sb, "open Nsq.Model.AdminGate in\ndef %s (conf : Conf) (req : Req) : Bool :=\n  %s\n", it.Str("name"), body)
	return sb.String(), nil
}

func predStmts(p *packages.Package, stmts []ast.Stmt) (string, error) {
	if len(stmts) == 0 {
		return "", fmt.Errorf("predicate falls off its end")
	}
	rest := func() (string, error) { return predStmts(p, stmts[1:]) }
	switch v := stmts[0].(type) {
	case *ast.ReturnStmt:
		if len(v.Results) != 1 {
			return "", fmt.Errorf("return with %d results", len(v.Results))
		}
		return predExpr(p, v.Results[0])
	case *ast.AssignStmt:
		if len(v.Lhs) != 1 || len(v.Rhs) != 1 || v.Tok != token.DEFINE {
			return "", fmt.Errorf("unsupported assignment %s", exprText(p.Fset, v))
		}
		id, ok := v.Lhs[0].(*ast.Ident)
		if !ok {
			return "", fmt.Errorf("unsupported assignment %s", exprText(p.Fset, v))
		}
		e, err := predExpr(p, v.Rhs[0])
		if err != nil {
			return "", err
		}
		r, err := rest()
		if err != nil {
			return "", err
		}
		return fmt.Sprintf("let %s := %s\n  %s", id.Name, e, r), nil
	case *ast.IfStmt:
		if v.Init != nil || v.Else != nil || len(v.Body.List) != 1 {
			return "", fmt.Errorf("unsupported if %s", exprText(p.Fset, v.Cond))
		}
		ret, ok := v.Body.List[0].(*ast.ReturnStmt)
		if !ok || len(ret.Results) != 1 {
			return "", fmt.Errorf("if body is not a single return")
		}
		cnd, err := predExpr(p, v.Cond)
		if err != nil {
			return "", err
		}
		val, err := predExpr(p, ret.Results[0])
		if err != nil {
			return "", err
		}
		r, err := rest()
		if err != nil {
			return "", err
		}
		return fmt.Sprintf("if %s then %s else\n  %s", cnd, val, r), nil
	case *ast.RangeStmt:
		// for _, v := range xs { if c { return true } }
		if v.Key == nil || exprText(p.Fset, v.Key) != "_" || v.Value == nil || len(v.Body.List) != 1 {
			return "", fmt.Errorf("unsupported range loop")
		}
		val, ok := v.Value.(*ast.Ident)
		if !ok {
			return "", fmt.Errorf("unsupported range loop")
		}
		ifs, ok := v.Body.List[0].(*ast.IfStmt)
		if !ok || ifs.Init != nil || ifs.Else != nil || len(ifs.Body.List) != 1 {
			return "", fmt.Errorf("unsupported range loop body")
		}
		ret, ok := ifs.Body.List[0].(*ast.ReturnStmt)
		if !ok || len(ret.Results) != 1 || exprText(p.Fset, ret.Results[0]) != "true" {
			return "", fmt.Errorf("range loop body must be `if c { return true }`")
		}
		xs, err := predExpr(p, v.X)
		if err != nil {
			return "", err
		}
		cnd, err := predExpr(p, ifs.Cond)
		if err != nil {
			return "", err
		}
		r, err := rest()
		if err != nil {
			return "", err
		}
		return fmt.Sprintf("if (%s).any (fun %s => %s) then true else\n  %s", xs, val.Name, cnd, r), nil
	}
	return "", fmt.Errorf("unsupported statement %s", exprText(p.Fset, stmts[0]))
}

func predExpr(p *packages.Package, e ast.Expr) (string, error) {
	t := exprText(p.Fset, e)
	switch t {
	case "s.nsqadmin.getOpts().AdminUsers":
		return "conf.adminUsers", nil
	case "s.nsqadmin.getOpts().ACLHTTPHeader":
		return "conf.aclHeader", nil
	case "true", "false":
		return t, nil
	}
	switch v := e.(type) {
	case *ast.Ident:
		return v.Name, nil
	case *ast.ParenExpr:
		return predExpr(p, v.X)
	case *ast.BasicLit:
		if v.Kind == token.INT {
			return v.Value, nil
		}
		if v.Kind == token.STRING {
			if s, ok := unq(v.Value); ok {
				return leanStr(s), nil
			}
		}
	case *ast.UnaryExpr:
		if v.Op == token.NOT {
			a, err := predExpr(p, v.X)
			if err != nil {
				return "", err
			}
			return "(!" + a + ")", nil
		}
	case *ast.BinaryExpr:
		a, err := predExpr(p, v.X)
		if err != nil {
			return "", err
		}
		b, err := predExpr(p, v.Y)
		if err != nil {
			return "", err
		}
		switch v.Op {
		case token.EQL:
			return "(" + a + " == " + b + ")", nil
		case token.NEQ:
			return "(" + a + " != " + b + ")", nil
		case token.LAND:
			return "(" + a + " && " + b + ")", nil
		case token.LOR:
			return "(" + a + " || " + b + ")", nil
		}
	case *ast.CallExpr:
		fn := exprText(p.Fset, v.Fun)
		if fn == "len" && len(v.Args) == 1 {
			a, err := predExpr(p, v.Args[0])
			if err != nil {
				return "", err
			}
			return "(" + a + ").length", nil
		}
		if fn == "req.Header.Get" && len(v.Args) == 1 {
			a, err := predExpr(p, v.Args[0])
			if err != nil {
				return "", err
			}
			return "(headerGet req.headers " + a + ")", nil
		}
	}
	return "", fmt.Errorf("unsupported expression %s", t)
}
