package main

// Extractors for the relay tools (property C20, option surface and to_nsq main loop).
//
//	skeleton_deep {"name","dir","func","from":"<stmt prefix>","drop":[substr...]} → def <name> : List String
//	    like `skeleton`, but (a) starts at the first top-level statement whose text starts with
//	    "from" (flag parsing before it is not part of the model) and (b) descends into the function
//	    literal of `go func() { … }()` statements (entry "go func()", body one level deeper), so the
//	    goroutine closures of a `main` are part of the skeleton.
//	hdrparse {"name","dir","func"} → see kind_relay_hdr.go section below.

import (
	"fmt"
	"go/ast"
	"go/token"
	"strings"
)

func init() {
	register("skeleton_deep", kindSkeletonDeep)
}

type rlSkel struct {
	fset  *token.FileSet
	drops []string
	rows  []string
}

func (k *rlSkel) emit(depth int, s string) {
	for _, d := range k.drops {
		if strings.Contains(s, d) {
			return
		}
	}
	k.rows = append(k.rows, strings.Repeat(".", depth)+s)
}

func (k *rlSkel) block(depth int, b *ast.BlockStmt) error {
	if b == nil {
		return nil
	}
	for _, s := range b.List {
		if err := k.walk(depth, s); err != nil {
			return err
		}
	}
	return nil
}

func (k *rlSkel) clauses(depth int, list []ast.Stmt) error {
	for _, cl := range list {
		switch cc := cl.(type) {
		case *ast.CommClause:
			if cc.Comm == nil {
				k.emit(depth, "default")
			} else {
				k.emit(depth, "case "+exprText(k.fset, cc.Comm))
			}
			for _, s := range cc.Body {
				if err := k.walk(depth+1, s); err != nil {
					return err
				}
			}
		case *ast.CaseClause:
			if cc.List == nil {
				k.emit(depth, "default")
			} else {
				var parts []string
				for _, e := range cc.List {
					parts = append(parts, exprText(k.fset, e))
				}
				k.emit(depth, "case "+strings.Join(parts, ", "))
			}
			for _, s := range cc.Body {
				if err := k.walk(depth+1, s); err != nil {
					return err
				}
			}
		}
	}
	return nil
}

func (k *rlSkel) walk(depth int, s ast.Stmt) error {
	switch x := s.(type) {
	case *ast.BlockStmt:
		return k.block(depth, x)
	case *ast.IfStmt:
		hdr := "if "
		if x.Init != nil {
			hdr += exprText(k.fset, x.Init) + "; "
		}
		k.emit(depth, hdr+exprText(k.fset, x.Cond))
		if err := k.block(depth+1, x.Body); err != nil {
			return err
		}
		if x.Else != nil {
			k.emit(depth, "else")
			if eb, ok := x.Else.(*ast.BlockStmt); ok {
				return k.block(depth+1, eb)
			}
			return k.walk(depth+1, x.Else)
		}
	case *ast.ForStmt:
		hdr := "for"
		if x.Init != nil {
			hdr += " " + exprText(k.fset, x.Init) + ";"
		}
		if x.Cond != nil {
			hdr += " " + exprText(k.fset, x.Cond)
		}
		if x.Post != nil {
			hdr += "; " + exprText(k.fset, x.Post)
		}
		k.emit(depth, hdr)
		return k.block(depth+1, x.Body)
	case *ast.RangeStmt:
		k.emit(depth, "range "+exprText(k.fset, x.X))
		return k.block(depth+1, x.Body)
	case *ast.SelectStmt:
		k.emit(depth, "select")
		return k.clauses(depth+1, x.Body.List)
	case *ast.SwitchStmt:
		hdr := "switch"
		if x.Init != nil {
			hdr += " " + exprText(k.fset, x.Init) + ";"
		}
		if x.Tag != nil {
			hdr += " " + exprText(k.fset, x.Tag)
		}
		k.emit(depth, hdr)
		return k.clauses(depth+1, x.Body.List)
	case *ast.TypeSwitchStmt:
		k.emit(depth, "typeswitch "+exprText(k.fset, x.Assign))
		return k.clauses(depth+1, x.Body.List)
	case *ast.LabeledStmt:
		k.emit(depth, "label "+x.Label.Name)
		return k.walk(depth, x.Stmt)
	case *ast.GoStmt:
		if fl, ok := x.Call.Fun.(*ast.FuncLit); ok && len(x.Call.Args) == 0 && len(fl.Type.Params.List) == 0 {
			k.emit(depth, "go func()")
			return k.block(depth+1, fl.Body)
		}
		k.emit(depth, exprText(k.fset, x))
	case *ast.DeclStmt:
		if gd, ok := x.Decl.(*ast.GenDecl); ok {
			cp := *gd
			cp.Doc = nil // a comment above the declaration is not part of the statement
			k.emit(depth, exprText(k.fset, &cp))
		} else {
			k.emit(depth, exprText(k.fset, x))
		}
	case *ast.AssignStmt, *ast.ExprStmt, *ast.ReturnStmt, *ast.IncDecStmt, *ast.BranchStmt,
		*ast.DeferStmt, *ast.SendStmt:
		k.emit(depth, exprText(k.fset, x))
	case *ast.EmptyStmt:
	default:
		return fmt.Errorf("skeleton_deep: unsupported statement %T", s)
	}
	return nil
}

func kindSkeletonDeep(c *Ctx, it Item) (string, error) {
	fset, fd, err := findFuncAny(c, it.Str("dir"), it.Str("func"))
	if err != nil {
		return "", err
	}
	k := &rlSkel{fset: fset, drops: it.Strs("drop")}
	from := it.Str("from")
	started := from == ""
	for _, s := range fd.Body.List {
		if !started {
			if strings.HasPrefix(exprText(fset, s), from) {
				started = true
			} else {
				continue
			}
		}
		if err := k.walk(0, s); err != nil {
			return "", err
		}
	}
	if !started {
		return "", fmt.Errorf("skeleton_deep: no top-level statement of %s starts with %q", it.Str("func"), from)
	}
	return fmt.Sprintf("def %s : List String := [\n  %s]\n", it.Str("name"), strings.Join(quoteAll(k.rows), ",\n  ")), nil
}

// ---------------------------------------------------------------------------------------------
//	maploop {"name","dir","func"} → def <name>_step (m : List (Str × Str)) (s : Str) : Step
//	                                def <name> (strs : List Str) : Step := foldSteps <name>_step [] strs
//
// Translates a function of the shape of nsq_to_http's parseCustomHeaders:
//
//	func F(strs []string) (map[string]string, error) {
//	    m := make(map[string]string)
//	    for _, s := range strs { BODY }
//	    return m, nil
//	}
//
// BODY statements accepted (anything else is REJECTED):
//	x := strings.SplitN(e, "<one byte>", 2)        let x := splitN2 <byte> e            (x : List Str)
//	x := strings.TrimSpace(e)                       let x := trimSpace e
//	if COND { return nil, <error expr> }            if COND then Step.err else …
//	m[k] = v                                        let m := mapSet m k v
// expressions e: a string variable, the range variable, x[<literal i>] for a SplitN result (rendered as a
// match on `x[i]?`; out of range = Step.panic, as the index expression would panic in Go);
// COND: len(x) != / == <literal>, e == "" / e != "", ||, &&, !.
// The end of BODY continues the loop with the current map (Step.ok m).

func init() { register("maploop", kindMapLoop) }

type mlTrans struct {
	fset   *token.FileSet
	mapVar string
	kinds  map[string]string // go var → "str" | "list"
	tmp    int
}

func mlBytes(s string) string {
	parts := make([]string, len(s))
	for i := 0; i < len(s); i++ {
		parts[i] = fmt.Sprintf("%d", s[i])
	}
	return "[" + strings.Join(parts, ", ") + "]"
}

func mlStrLit(e ast.Expr) (string, bool) {
	bl, ok := e.(*ast.BasicLit)
	if !ok || bl.Kind != token.STRING {
		return "", false
	}
	var s string
	if _, err := fmt.Sscanf(bl.Value, "%q", &s); err != nil && bl.Value != `""` {
		return "", false
	}
	return s, true
}

func mlCall(e ast.Expr, pkg, fn string, nargs int) ([]ast.Expr, bool) {
	c, ok := e.(*ast.CallExpr)
	if !ok || len(c.Args) != nargs {
		return nil, false
	}
	sel, ok := c.Fun.(*ast.SelectorExpr)
	if !ok || sel.Sel.Name != fn {
		return nil, false
	}
	if id, ok := sel.X.(*ast.Ident); !ok || id.Name != pkg {
		return nil, false
	}
	return c.Args, true
}

// strExpr renders a string expression; `wrap` collects the matches needed for index expressions.
func (t *mlTrans) strExpr(e ast.Expr, wrap *[]string) (string, error) {
	switch x := e.(type) {
	case *ast.Ident:
		if t.kinds[x.Name] == "str" {
			return x.Name, nil
		}
	case *ast.BasicLit:
		if s, ok := mlStrLit(x); ok {
			return "(" + mlBytes(s) + " : Str)", nil
		}
	case *ast.IndexExpr:
		id, ok := x.X.(*ast.Ident)
		lit, ok2 := x.Index.(*ast.BasicLit)
		if ok && ok2 && t.kinds[id.Name] == "list" && lit.Kind == token.INT {
			t.tmp++
			v := fmt.Sprintf("%s_%s_%d", id.Name, lit.Value, t.tmp)
			*wrap = append(*wrap, fmt.Sprintf("match %s[%s]? with\n  | none => Step.panic\n  | some %s =>", id.Name, lit.Value, v))
			return v, nil
		}
	}
	return "", fmt.Errorf("maploop: unsupported string expression %s", exprText(t.fset, e))
}

func (t *mlTrans) cond(e ast.Expr) (string, error) {
	switch x := e.(type) {
	case *ast.ParenExpr:
		return t.cond(x.X)
	case *ast.UnaryExpr:
		if x.Op == token.NOT {
			c, err := t.cond(x.X)
			return "(!" + c + ")", err
		}
	case *ast.BinaryExpr:
		switch x.Op {
		case token.LOR, token.LAND:
			l, err := t.cond(x.X)
			if err != nil {
				return "", err
			}
			r, err := t.cond(x.Y)
			if err != nil {
				return "", err
			}
			op := "||"
			if x.Op == token.LAND {
				op = "&&"
			}
			return "(" + l + " " + op + " " + r + ")", nil
		case token.EQL, token.NEQ:
			op := "=="
			if x.Op == token.NEQ {
				op = "!="
			}
			// len(x) ==/!= N
			if c, ok := x.X.(*ast.CallExpr); ok {
				if id, ok := c.Fun.(*ast.Ident); ok && id.Name == "len" && len(c.Args) == 1 {
					if a, ok := c.Args[0].(*ast.Ident); ok && t.kinds[a.Name] == "list" {
						if lit, ok := x.Y.(*ast.BasicLit); ok && lit.Kind == token.INT {
							return fmt.Sprintf("(%s.length %s %s)", a.Name, op, lit.Value), nil
						}
					}
				}
			}
			var wrap []string
			l, err := t.strExpr(x.X, &wrap)
			if err != nil {
				return "", err
			}
			r, err := t.strExpr(x.Y, &wrap)
			if err != nil {
				return "", err
			}
			if len(wrap) > 0 {
				return "", fmt.Errorf("maploop: index expression inside a condition is not supported")
			}
			return fmt.Sprintf("(%s %s %s)", l, op, r), nil
		}
	}
	return "", fmt.Errorf("maploop: unsupported condition %s", exprText(t.fset, e))
}

func kindMapLoop(c *Ctx, it Item) (string, error) {
	p, fd, err := c.FindFunc(it.Str("dir"), it.Str("func"))
	if err != nil {
		return "", err
	}
	name := it.Str("name")
	body := fd.Body.List
	if len(body) != 3 || fd.Type.Params.NumFields() != 1 || len(fd.Type.Params.List[0].Names) != 1 {
		return "", fmt.Errorf("maploop: %s does not have the shape make / range / return", it.Str("func"))
	}
	var resTypes []string
	if fd.Type.Results != nil {
		for _, f := range fd.Type.Results.List {
			resTypes = append(resTypes, exprText(p.Fset, f.Type))
		}
	}
	if exprText(p.Fset, fd.Type.Params.List[0].Type) != "[]string" || strings.Join(resTypes, ", ") != "map[string]string, error" {
		return "", fmt.Errorf("maploop: signature of %s is not ([]string) (map[string]string, error)", it.Str("func"))
	}
	param := fd.Type.Params.List[0].Names[0].Name
	as, ok := body[0].(*ast.AssignStmt)
	if !ok || as.Tok != token.DEFINE || len(as.Lhs) != 1 || exprText(p.Fset, as.Rhs[0]) != "make(map[string]string)" {
		return "", fmt.Errorf("maploop: first statement must be m := make(map[string]string)")
	}
	t := &mlTrans{fset: p.Fset, mapVar: as.Lhs[0].(*ast.Ident).Name, kinds: map[string]string{}}
	rs, ok := body[1].(*ast.RangeStmt)
	if !ok || exprText(p.Fset, rs.X) != param || rs.Value == nil || exprText(p.Fset, rs.Key) != "_" {
		return "", fmt.Errorf("maploop: second statement must be for _, s := range %s", param)
	}
	rangeVar := rs.Value.(*ast.Ident).Name
	t.kinds[rangeVar] = "str"
	if exprText(p.Fset, body[2]) != "return "+t.mapVar+", nil" {
		return "", fmt.Errorf("maploop: last statement must be return %s, nil", t.mapVar)
	}
	var sb strings.Builder
	for _, s := range rs.Body.List {
		switch x := s.(type) {
		case *ast.AssignStmt:
			if len(x.Lhs) != 1 || len(x.Rhs) != 1 {
				return "", fmt.Errorf("maploop: unsupported assignment %s", exprText(p.Fset, s))
			}
			if ix, ok := x.Lhs[0].(*ast.IndexExpr); ok && x.Tok == token.ASSIGN { // m[k] = v
				if id, ok := ix.X.(*ast.Ident); !ok || id.Name != t.mapVar {
					return "", fmt.Errorf("maploop: unsupported assignment %s", exprText(p.Fset, s))
				}
				var wrap []string
				k, err := t.strExpr(ix.Index, &wrap)
				if err != nil {
					return "", err
				}
				v, err := t.strExpr(x.Rhs[0], &wrap)
				if err != nil {
					return "", err
				}
				for _, w := range wrap {
					sb.WriteString("  " + w + "\n")
				}
				fmt.Fprintf(&sb, "  let %s := mapSet %s %s %s\n", t.mapVar, t.mapVar, k, v)
				continue
			}
			lhs, ok := x.Lhs[0].(*ast.Ident)
			if !ok || x.Tok != token.DEFINE {
				return "", fmt.Errorf("maploop: unsupported assignment %s", exprText(p.Fset, s))
			}
			if args, ok := mlCall(x.Rhs[0], "strings", "SplitN", 3); ok {
				sep, ok1 := mlStrLit(args[1])
				if !ok1 || len(sep) != 1 || exprText(p.Fset, args[2]) != "2" {
					return "", fmt.Errorf("maploop: only strings.SplitN(e, \"<one byte>\", 2) is supported: %s", exprText(p.Fset, s))
				}
				var wrap []string
				e, err := t.strExpr(args[0], &wrap)
				if err != nil {
					return "", err
				}
				for _, w := range wrap {
					sb.WriteString("  " + w + "\n")
				}
				fmt.Fprintf(&sb, "  let %s := splitN2 %d %s\n", lhs.Name, sep[0], e)
				t.kinds[lhs.Name] = "list"
				continue
			}
			if args, ok := mlCall(x.Rhs[0], "strings", "TrimSpace", 1); ok {
				var wrap []string
				e, err := t.strExpr(args[0], &wrap)
				if err != nil {
					return "", err
				}
				for _, w := range wrap {
					sb.WriteString("  " + w + "\n")
				}
				fmt.Fprintf(&sb, "  let %s := trimSpace %s\n", lhs.Name, e)
				t.kinds[lhs.Name] = "str"
				continue
			}
			return "", fmt.Errorf("maploop: unsupported assignment %s", exprText(p.Fset, s))
		case *ast.IfStmt:
			if x.Init != nil || x.Else != nil || len(x.Body.List) != 1 {
				return "", fmt.Errorf("maploop: unsupported if %s", exprText(p.Fset, x.Cond))
			}
			ret, ok := x.Body.List[0].(*ast.ReturnStmt)
			if !ok || len(ret.Results) != 2 || exprText(p.Fset, ret.Results[0]) != "nil" || exprText(p.Fset, ret.Results[1]) == "nil" {
				return "", fmt.Errorf("maploop: an if body must be `return nil, <error>`")
			}
			cnd, err := t.cond(x.Cond)
			if err != nil {
				return "", err
			}
			fmt.Fprintf(&sb, "  if %s then Step.err else\n", cnd)
		default:
			return "", fmt.Errorf("maploop: unsupported statement %s", exprText(p.Fset, s))
		}
	}
	fmt.Fprintf(&sb, "  Step.ok %s\n", t.mapVar)
	return fmt.Sprintf("open Nsq.Model.RelayOpts in\ndef %s_step (%s : List (Str × Str)) (%s : Str) : Step :=\n%s\nopen Nsq.Model.RelayOpts in\ndef %s (%s : List Str) : Step := foldSteps %s_step [] %s\n",
		name, t.mapVar, rangeVar, sb.String(), name, param, name, param), nil
}
