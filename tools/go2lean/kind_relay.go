package main

// Extractors for the relay tools (property C20, option surface and to_nsq main loop).
//
//	skeleton_deep {"name","dir","func","from":"<stmt prefix>","drop":[substr...]} → def <name> : List String
//	    like `skeleton`, but (a) starts at the first top-level statement whose text starts with
//	    "from" (flag parsing before it is not part of the model) and (b) descends into the function
//	    literal of `go func() { … }()` statements (entry "go func()", body one level deeper), so the
//	    goroutine closures of a `main` are part of the skeleton.
//	hdrparse {"name","dir","func"} → see kind_relay_hdr.go section below.

import (
	"fmt"
	"go/ast"
	"go/token"
	"strings"
)

func init() {
	register("skeleton_deep", kindSkeletonDeep)
}

type rlSkel struct {
	fset  *token.FileSet
	drops []string
	rows  []string
}

func (k *rlSkel) emit(depth int, s string) {
	for _, d := range k.drops {
		if strings.Contains(s, d) {
			return
		}
	}
	k.rows = append(k.rows, strings.Repeat(".", depth)+s)
}

func (k *rlSkel) block(depth int, b *ast.BlockStmt) error {
	if b == nil {
		return nil
	}
	for _, s := range b.List {
		if err := k.walk(depth, s); err != nil {
			return err
		}
	}
	return nil
}

func (k *rlSkel) clauses(depth int, list []ast.Stmt) error {
	for _, cl := range list {
		switch cc := cl.(type) {
		case *ast.CommClause:
			if cc.Comm == nil {
				k.emit(depth, "default")
			} else {
				k.emit(depth, "case "+exprText(k.fset, cc.Comm))
			}
			for _, s := range cc.Body {
				if err := k.walk(depth+1, s); err != nil {
					return err
				}
			}
		case *ast.CaseClause:
			if cc.List == nil {
				k.emit(depth, "default")
			} else {
				var parts []string
				for _, e := range cc.List {
					parts = append(parts, exprText(k.fset, e))
				}
				k.emit(depth, "case "+strings.Join(parts, ", "))
			}
			for _, s := range cc.Body {
				if err := k.walk(depth+1, s); err != nil {
					return err
				}
			}
		}
	}
	return nil
}

func (k *rlSkel) walk(depth int, s ast.Stmt) error {
	switch x := s.(type) {
	case *ast.BlockStmt:
		return k.block(depth, x)
	case *ast.IfStmt:
		hdr := "if "
		if x.Init != nil {
			hdr += exprText(k.fset, x.Init) + "; "
		}
		k.emit(depth, hdr+exprText(k.fset, x.Cond))
		if err := k.block(depth+1, x.Body); err != nil {
			return err
		}
		if x.Else != nil {
			k.emit(depth, "else")
			if eb, ok := x.Else.(*ast.BlockStmt); ok {
				return k.block(depth+1, eb)
			}
			return k.walk(depth+1, x.Else)
		}
	case *ast.ForStmt:
		hdr := "for"
		if x.Init != nil {
			hdr += " " + exprText(k.fset, x.Init) + ";"
		}
		if x.Cond != nil {
			hdr += " " + exprText(k.fset, x.Cond)
		}
		if x.Post != nil {
			hdr += "; " + exprText(k.fset, x.Post)
		}
		k.emit(depth, hdr)
		return k.block(depth+1, x.Body)
	case *ast.RangeStmt:
		k.emit(depth, "range "+exprText(k.fset, x.X))
		return k.block(depth+1, x.Body)
	case *ast.SelectStmt:
		k.emit(depth, "select")
		return k.clauses(depth+1, x.Body.List)
	case *ast.SwitchStmt:
		hdr := "switch"
		if x.Init != nil {
			hdr += " " + exprText(k.fset, x.Init) + ";"
		}
		if x.Tag != nil {
			hdr += " " + exprText(k.fset, x.Tag)
		}
		k.emit(depth, hdr)
		return k.clauses(depth+1, x.Body.List)
	case *ast.TypeSwitchStmt:
		k.emit(depth, "typeswitch "+exprText(k.fset, x.Assign))
		return k.clauses(depth+1, x.Body.List)
	case *ast.LabeledStmt:
		k.emit(depth, "label "+x.Label.Name)
		return k.walk(depth, x.Stmt)
	case *ast.GoStmt:
		if fl, ok := x.Call.Fun.(*ast.FuncLit); ok && len(x.Call.Args) == 0 && len(fl.Type.Params.List) == 0 {
			k.emit(depth, "go func()")
			return k.block(depth+1, fl.Body)
		}
		k.emit(depth, exprText(k.fset, x))
	case *ast.DeclStmt:
		if gd, ok := x.Decl.(*ast.GenDecl); ok {
			cp := *gd
			cp.Doc = nil // a comment above the declaration is not part of the statement
			k.emit(depth, exprText(k.fset, &cp))
		} else {
			k.emit(depth, exprText(k.fset, x))
		}
	case *ast.AssignStmt, *ast.ExprStmt, *ast.ReturnStmt, *ast.IncDecStmt, *ast.BranchStmt,
		*ast.DeferStmt, *ast.SendStmt:
		k.emit(depth, exprText(k.fset, x))
	case *ast.EmptyStmt:
	default:
		return fmt.Errorf("skeleton_deep: unsupported statement %T", s)
	}
	return nil
}

func kindSkeletonDeep(c *Ctx, it Item) (string, error) {
	fset, fd, err := findFuncAny(c, it.Str("dir"), it.Str("func"))
	if err != nil {
		return "", err
	}
	k := &rlSkel{fset: fset, drops: it.Strs("drop")}
	from := it.Str("from")
	started := from == ""
	for _, s := range fd.Body.List {
		if !started {
			if strings.HasPrefix(exprText(fset, s), from) {
				started = true
			} else {
				continue
			}
		}
		if err := k.walk(0, s); err != nil {
			return "", err
		}
	}
	if !started {
		return "", fmt.Errorf("skeleton_deep: no top-level statement of %s starts with %q", it.Str("func"), from)
	}
	return fmt.Sprintf("def %s : List String := [\n  %s]\n", it.Str("name"), strings.Join(quoteAll(k.rows), ",\n  ")), nil
}
