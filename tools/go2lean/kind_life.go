package main

// kind "locknest": the lock-nesting relation of one package.
//
// A lock is named by the struct type that owns the sync.Mutex / sync.RWMutex field and the
// field name ("Channel.inFlightMutex", "Topic.RWMutex" for an embedded one).  The relation
// contains (A, B) when some function of the package acquires B (directly or through calls to
// other functions/methods of the same package, followed transitively) at a point where A is
// held.  Read and write acquisitions are not distinguished (a waiting writer blocks new readers,
// so nested read locks can deadlock too).
//
// Approximations, all on the conservative side (more edges, never fewer) except where noted:
//   * statements are scanned in source order; a branch starts from the set held before it and
//     the sets of all branches are united afterwards; a deferred Unlock keeps the lock to the
//     end of the function; an Unlock on one branch only releases the lock on that branch;
//   * calls through an interface are resolved to every method of that name declared in the
//     package; calls of function-typed fields / variables cannot be resolved and are listed in
//     `<name>Unresolved` (the Lean side does not prove anything about them — they are part of the
//     stated trusted base of the deadlock-freedom claim);
//   * `go f(...)` and function literals handed to other functions (waitGroup.Wrap, time.AfterFunc)
//     run in another goroutine and are not attributed to the caller; a function literal invoked
//     via sync.Once.Do is treated the same way only when the Do call itself sits in a go statement.

import (
	"fmt"
	"go/ast"
	"go/types"
	"sort"
	"strings"

	"golang.org/x/tools/go/packages"
)

func init() {
	register("locknest", kindLockNest)
	register("callargs", kindCallArgs)
}

// kind "callargs": the argument expressions (source text) of the calls to `callee` (e.g. "diskqueue.New")
// inside one function: def <name> : List (List String).
func kindCallArgs(c *Ctx, it Item) (string, error) {
	p, fd, err := c.FindFunc(it.Str("dir"), it.Str("func"))
	if err != nil {
		return "", err
	}
	callee := it.Str("callee")
	var rows []string
	ast.Inspect(fd.Body, func(n ast.Node) bool {
		ce, ok := n.(*ast.CallExpr)
		if !ok {
			return true
		}
		if exprText(p.Fset, ce.Fun) != callee {
			return true
		}
		var args []string
		for _, a := range ce.Args {
			args = append(args, exprText(p.Fset, a))
		}
		rows = append(rows, leanStrList(args))
		return true
	})
	if len(rows) == 0 {
		return "", fmt.Errorf("no call of %s in %s", callee, it.Str("func"))
	}
	return fmt.Sprintf("def %s : List (List String) := [\n  %s]\n", it.Str("name"), strings.Join(rows, ",\n  ")), nil
}

type lnFunc struct {
	decl     *ast.FuncDecl
	key      string
	direct   map[string]bool            // locks acquired directly
	calls    map[string]bool            // callee keys (same package)
	edges    map[[2]string]bool         // (held, acquired) observed directly
	heldCall map[string]map[string]bool // callee key -> set of locks held at some call site
}

type lnCtx struct {
	nlit       int
	p          *packages.Package
	funcs      map[string]*lnFunc
	byName     map[string][]string // method name -> keys (for interface dispatch)
	unresolved map[string]bool
}

func lnFuncKey(fn *types.Func) string {
	sig := fn.Type().(*types.Signature)
	if r := sig.Recv(); r != nil {
		t := r.Type()
		if pt, ok := t.(*types.Pointer); ok {
			t = pt.Elem()
		}
		if n, ok := t.(*types.Named); ok {
			return n.Obj().Name() + "." + fn.Name()
		}
	}
	return fn.Name()
}

func isSyncLockType(t types.Type) bool {
	if pt, ok := t.(*types.Pointer); ok {
		t = pt.Elem()
	}
	n, ok := t.(*types.Named)
	if !ok || n.Obj().Pkg() == nil {
		return false
	}
	return n.Obj().Pkg().Path() == "sync" && (n.Obj().Name() == "Mutex" || n.Obj().Name() == "RWMutex")
}

// lockName resolves the receiver expression of X.Lock() to "Owner.field".
func (c *lnCtx) lockName(sel *ast.SelectorExpr) string {
	info := c.p.TypesInfo
	// explicit field: a.b.mu.Lock()  -> receiver expression is itself a selector of a mutex field
	if inner, ok := sel.X.(*ast.SelectorExpr); ok {
		if s, ok := info.Selections[inner]; ok && s.Kind() == types.FieldVal && isSyncLockType(s.Type()) {
			return ownerOf(s.Recv()) + "." + inner.Sel.Name
		}
	}
	// embedded: c.Lock() where c's struct embeds sync.RWMutex
	if s, ok := info.Selections[sel]; ok && len(s.Index()) > 1 {
		t := s.Recv()
		if pt, ok := t.(*types.Pointer); ok {
			t = pt.Elem()
		}
		owner := ownerOf(s.Recv())
		cur := t
		name := ""
		for _, i := range s.Index()[:len(s.Index())-1] {
			st, ok := cur.Underlying().(*types.Struct)
			if !ok {
				break
			}
			f := st.Field(i)
			name = f.Name()
			if n, ok := cur.(*types.Named); ok {
				owner = n.Obj().Name()
			}
			cur = f.Type()
			if pt, ok := cur.(*types.Pointer); ok {
				cur = pt.Elem()
			}
		}
		if name != "" {
			return owner + "." + name
		}
	}
	// a plain variable of mutex type
	if id, ok := sel.X.(*ast.Ident); ok {
		return "var." + id.Name
	}
	return "?." + exprText(c.p.Fset, sel.X)
}

func ownerOf(t types.Type) string {
	if pt, ok := t.(*types.Pointer); ok {
		t = pt.Elem()
	}
	if n, ok := t.(*types.Named); ok {
		return n.Obj().Name()
	}
	return "?"
}

type lnHeld map[string]bool

// root makes a pseudo function for code that runs in another goroutine / later (go statements,
// function literals handed to someone else): what it acquires is not attributed to `f`.
func (c *lnCtx) root(f *lnFunc) *lnFunc {
	c.nlit++
	base := f.key
	if i := strings.Index(base, "$"); i >= 0 {
		base = base[:i]
	}
	k := fmt.Sprintf("%s$%d", base, c.nlit)
	g := &lnFunc{decl: f.decl, key: k, direct: map[string]bool{}, calls: map[string]bool{},
		edges: map[[2]string]bool{}, heldCall: map[string]map[string]bool{}}
	c.funcs[k] = g
	return g
}

func (h lnHeld) clone() lnHeld {
	n := lnHeld{}
	for k := range h {
		n[k] = true
	}
	return n
}

func (c *lnCtx) scanFunc(f *lnFunc) {
	held := lnHeld{}
	c.scanBlock(f, f.decl.Body.List, held)
}

func (c *lnCtx) scanBlock(f *lnFunc, stmts []ast.Stmt, held lnHeld) {
	for _, s := range stmts {
		c.scanStmt(f, s, held)
	}
}

func (c *lnCtx) union(dst lnHeld, srcs ...lnHeld) {
	for k := range dst {
		delete(dst, k)
	}
	for _, s := range srcs {
		for k := range s {
			dst[k] = true
		}
	}
}

func (c *lnCtx) scanStmt(f *lnFunc, s ast.Stmt, held lnHeld) {
	switch x := s.(type) {
	case nil:
	case *ast.BlockStmt:
		c.scanBlock(f, x.List, held)
	case *ast.GoStmt:
		// another goroutine: nothing is held there; its body is scanned as its own root below
		c.scanGo(f, x.Call)
	case *ast.DeferStmt:
		// defer X.Unlock(): stays held; other deferred calls run at the end with whatever is
		// still held — approximate by the set held now
		if !c.isLockOp(x.Call, "Unlock", "RUnlock") {
			c.scanExpr(f, x.Call, held)
		}
	case *ast.IfStmt:
		c.scanStmt(f, x.Init, held)
		c.scanExpr(f, x.Cond, held)
		a := held.clone()
		c.scanBlock(f, x.Body.List, a)
		b := held.clone()
		if x.Else != nil {
			c.scanStmt(f, x.Else, b)
		}
		c.union(held, a, b)
	case *ast.ForStmt:
		c.scanStmt(f, x.Init, held)
		c.scanExpr(f, x.Cond, held)
		a := held.clone()
		c.scanBlock(f, x.Body.List, a)
		c.scanStmt(f, x.Post, a)
		c.union(held, held.clone(), a)
	case *ast.RangeStmt:
		c.scanExpr(f, x.X, held)
		a := held.clone()
		c.scanBlock(f, x.Body.List, a)
		c.union(held, held.clone(), a)
	case *ast.SwitchStmt:
		c.scanStmt(f, x.Init, held)
		c.scanExpr(f, x.Tag, held)
		c.scanClauses(f, x.Body.List, held)
	case *ast.TypeSwitchStmt:
		c.scanStmt(f, x.Init, held)
		c.scanStmt(f, x.Assign, held)
		c.scanClauses(f, x.Body.List, held)
	case *ast.SelectStmt:
		c.scanClauses(f, x.Body.List, held)
	case *ast.LabeledStmt:
		c.scanStmt(f, x.Stmt, held)
	case *ast.ExprStmt:
		c.scanExpr(f, x.X, held)
	case *ast.AssignStmt:
		for _, e := range x.Rhs {
			c.scanExpr(f, e, held)
		}
		for _, e := range x.Lhs {
			c.scanExpr(f, e, held)
		}
	case *ast.ReturnStmt:
		for _, e := range x.Results {
			c.scanExpr(f, e, held)
		}
	case *ast.SendStmt:
		c.scanExpr(f, x.Chan, held)
		c.scanExpr(f, x.Value, held)
	case *ast.IncDecStmt:
		c.scanExpr(f, x.X, held)
	case *ast.DeclStmt:
		ast.Inspect(x, func(n ast.Node) bool {
			if e, ok := n.(ast.Expr); ok {
				c.scanExpr(f, e, held)
				return false
			}
			return true
		})
	}
}

func (c *lnCtx) scanClauses(f *lnFunc, clauses []ast.Stmt, held lnHeld) {
	var outs []lnHeld
	outs = append(outs, held.clone())
	for _, cl := range clauses {
		a := held.clone()
		switch y := cl.(type) {
		case *ast.CaseClause:
			for _, e := range y.List {
				c.scanExpr(f, e, a)
			}
			c.scanBlock(f, y.Body, a)
		case *ast.CommClause:
			c.scanStmt(f, y.Comm, a)
			c.scanBlock(f, y.Body, a)
		}
		outs = append(outs, a)
	}
	c.union(held, outs...)
}

func (c *lnCtx) isLockOp(call *ast.CallExpr, names ...string) bool {
	sel, ok := call.Fun.(*ast.SelectorExpr)
	if !ok {
		return false
	}
	match := false
	for _, n := range names {
		if sel.Sel.Name == n {
			match = true
		}
	}
	if !match {
		return false
	}
	if s, ok := c.p.TypesInfo.Selections[sel]; ok {
		if fn, ok := s.Obj().(*types.Func); ok && fn.Pkg() != nil && fn.Pkg().Path() == "sync" {
			sig := fn.Type().(*types.Signature)
			return sig.Recv() != nil && isSyncLockType(sig.Recv().Type())
		}
	}
	return false
}

// scanGo: the call of a go statement runs with nothing held.
func (c *lnCtx) scanGo(f *lnFunc, call *ast.CallExpr) {
	g := c.root(f)
	if lit, ok := call.Fun.(*ast.FuncLit); ok {
		c.scanBlock(g, lit.Body.List, lnHeld{})
		return
	}
	// go x.deleter.Do(func(){...}) and go f(args): the literals run in that goroutine
	for _, a := range call.Args {
		if lit, ok := a.(*ast.FuncLit); ok {
			c.scanBlock(g, lit.Body.List, lnHeld{})
		}
	}
	c.noteCall(g, call, lnHeld{})
}

func (c *lnCtx) scanExpr(f *lnFunc, e ast.Expr, held lnHeld) {
	if e == nil {
		return
	}
	ast.Inspect(e, func(n ast.Node) bool {
		switch x := n.(type) {
		case *ast.FuncLit:
			// a literal that is not called here: runs elsewhere (Wrap, AfterFunc, callbacks):
			// scan it as its own root with nothing held
			c.scanBlock(c.root(f), x.Body.List, lnHeld{})
			return false
		case *ast.CallExpr:
			if lit, ok := x.Fun.(*ast.FuncLit); ok { // immediately invoked literal
				c.scanBlock(f, lit.Body.List, held)
				for _, a := range x.Args {
					c.scanExpr(f, a, held)
				}
				return false
			}
			if c.isLockOp(x, "Lock", "RLock") {
				name := c.lockName(x.Fun.(*ast.SelectorExpr))
				for h := range held {
					f.edges[[2]string{h, name}] = true
				}
				f.direct[name] = true
				held[name] = true
				return false
			}
			if c.isLockOp(x, "Unlock", "RUnlock") {
				delete(held, c.lockName(x.Fun.(*ast.SelectorExpr)))
				return false
			}
			c.noteCall(f, x, held)
			return true
		}
		return true
	})
}

func (c *lnCtx) noteCall(f *lnFunc, call *ast.CallExpr, held lnHeld) {
	info := c.p.TypesInfo
	var keys []string
	switch fun := call.Fun.(type) {
	case *ast.Ident:
		if fn, ok := info.Uses[fun].(*types.Func); ok && fn.Pkg() == c.p.Types {
			keys = append(keys, lnFuncKey(fn))
		} else if v, ok := info.Uses[fun].(*types.Var); ok {
			if _, isSig := v.Type().Underlying().(*types.Signature); isSig {
				c.unresolved[f.key+": "+fun.Name+"(...)"] = true
			}
		}
	case *ast.SelectorExpr:
		if s, ok := info.Selections[fun]; ok {
			switch s.Kind() {
			case types.MethodVal:
				fn := s.Obj().(*types.Func)
				if iface, isIface := s.Recv().Underlying().(*types.Interface); isIface {
					keys = append(keys, c.implementers(iface, fn.Name())...)
				} else if fn.Pkg() == c.p.Types {
					keys = append(keys, lnFuncKey(fn))
				}
			case types.FieldVal:
				if _, isSig := s.Type().Underlying().(*types.Signature); isSig {
					c.unresolved[f.key+": "+exprText(c.p.Fset, fun)+"(...)"] = true
				}
			}
		} else if fn, ok := info.Uses[fun.Sel].(*types.Func); ok && fn.Pkg() == c.p.Types {
			keys = append(keys, lnFuncKey(fn))
		}
	}
	for _, k := range keys {
		if _, ok := c.funcs[k]; !ok {
			continue
		}
		f.calls[k] = true
		if f.heldCall[k] == nil {
			f.heldCall[k] = map[string]bool{}
		}
		for h := range held {
			f.heldCall[k][h] = true
		}
	}
}

// implementers: keys of the method `name` of every named type of the package that implements iface
func (c *lnCtx) implementers(iface *types.Interface, name string) []string {
	var keys []string
	scope := c.p.Types.Scope()
	for _, n := range scope.Names() {
		tn, ok := scope.Lookup(n).(*types.TypeName)
		if !ok {
			continue
		}
		t := tn.Type()
		if _, isI := t.Underlying().(*types.Interface); isI {
			continue
		}
		if types.Implements(t, iface) || types.Implements(types.NewPointer(t), iface) {
			keys = append(keys, tn.Name()+"."+name)
		}
	}
	return keys
}

func kindLockNest(c *Ctx, it Item) (string, error) {
	p, err := c.Pkg(it.Str("dir"))
	if err != nil {
		return "", err
	}
	lc := &lnCtx{p: p, funcs: map[string]*lnFunc{}, byName: map[string][]string{}, unresolved: map[string]bool{}}
	for _, file := range p.Syntax {
		fname := p.Fset.Position(file.Pos()).Filename
		if strings.HasSuffix(fname, "_test.go") {
			continue
		}
		for _, d := range file.Decls {
			fd, ok := d.(*ast.FuncDecl)
			if !ok || fd.Body == nil {
				continue
			}
			obj, ok := p.TypesInfo.Defs[fd.Name].(*types.Func)
			if !ok {
				continue
			}
			k := lnFuncKey(obj)
			lc.funcs[k] = &lnFunc{decl: fd, key: k, direct: map[string]bool{}, calls: map[string]bool{},
				edges: map[[2]string]bool{}, heldCall: map[string]map[string]bool{}}
			if fd.Recv != nil {
				lc.byName[fd.Name.Name] = append(lc.byName[fd.Name.Name], k)
			}
		}
	}
	var decls []*lnFunc
	for _, f := range lc.funcs {
		decls = append(decls, f)
	}
	sort.Slice(decls, func(i, j int) bool { return decls[i].key < decls[j].key })
	for _, f := range decls {
		lc.scanFunc(f)
	}
	// transitive acquisitions
	acq := map[string]map[string]bool{}
	for k, f := range lc.funcs {
		acq[k] = map[string]bool{}
		for l := range f.direct {
			acq[k][l] = true
		}
	}
	for changed := true; changed; {
		changed = false
		for k, f := range lc.funcs {
			for callee := range f.calls {
				for l := range acq[callee] {
					if !acq[k][l] {
						acq[k][l] = true
						changed = true
					}
				}
			}
		}
	}
	edges := map[[2]string]string{} // edge -> one witness function
	for k, f := range lc.funcs {
		for e := range f.edges {
			if _, ok := edges[e]; !ok || k < edges[e] {
				edges[e] = k
			}
		}
		for callee, helds := range f.heldCall {
			for h := range helds {
				for l := range acq[callee] {
					e := [2]string{h, l}
					w := k + "→" + callee
					if old, ok := edges[e]; !ok || w < old {
						edges[e] = w
					}
				}
			}
		}
	}
	var es [][2]string
	for e := range edges {
		es = append(es, e)
	}
	sort.Slice(es, func(i, j int) bool {
		if es[i][0] != es[j][0] {
			return es[i][0] < es[j][0]
		}
		return es[i][1] < es[j][1]
	})
	must := it.Strs("require")
	have := map[string]bool{}
	for _, f := range lc.funcs {
		for l := range f.direct {
			have[l] = true
		}
	}
	for _, m := range must {
		if !have[m] {
			return "", fmt.Errorf("lock %s is never acquired in %s (renamed?)", m, it.Str("dir"))
		}
	}
	var sb strings.Builder
	name := it.Str("name")
	sb.WriteString(fmt.Sprintf("/-- lock-nesting relation of %s: (A, B) = B acquired while A held -/\n", it.Str("dir")))
	sb.WriteString(fmt.Sprintf("def %s : List (String × String) := [\n", name))
	for i, e := range es {
		sep := ","
		if i == len(es)-1 {
			sep = ""
		}
		sb.WriteString(fmt.Sprintf("  (%s, %s)%s  -- %s\n", leanStr(e[0]), leanStr(e[1]), sep, edges[e]))
	}
	sb.WriteString("]\n\n")
	var locks []string
	for l := range have {
		locks = append(locks, l)
	}
	sort.Strings(locks)
	sb.WriteString(fmt.Sprintf("def %sLocks : List String := %s\n\n", name, leanStrList(locks)))
	var un []string
	for u := range lc.unresolved {
		un = append(un, u)
	}
	sort.Strings(un)
	sb.WriteString(fmt.Sprintf("def %sUnresolved : List String := %s\n", name, leanStrList(un)))
	return sb.String(), nil
}
