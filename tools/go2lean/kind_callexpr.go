package main

// kind "callexpr": ONE argument expression of ONE call, translated into a Lean definition over BitVec
// (a regenerated *definition*, not the source text of the argument — compare kind "callargs").
//
//	{"kind":"callexpr", "name":"topicMaxMsgSize", "dir":"nsqd", "func":"NewTopic",
//	 "callee":"diskqueue.New", "arg":4, "nargs":8, "param":"maxMsgSize",
//	 "externals":[["nsqd.getOpts().MaxMsgSize","maxMsgSize"], …],   // ordered: the parameters of the def
//	 "aliases":["nsqd.getOpts()"]}
//
//	→ def <name> (<every external> : BitVec w) : BitVec w' := <translated expression>
//	  def <name>.goType : String      declared type of the callee's parameter ("int32", "time.Duration")
//	  def <name>.goParam : String     name of the callee's parameter at that index
//	  def <name>.signed : Bool        the parameter's integer type is signed (how the Lean side must read the BitVec)
//	  def <name>.extTypes : List (String × String)   (parameter of the def, declared Go type of the external)
//
// The function `func` must contain exactly one call of `callee` (source text of the called expression) with
// `nargs` arguments; `param` (optional) must be the name go/types reports for the callee's parameter `arg`.
//
// Accepted expression subset (anything else is REJECTED, never guessed):
//   - a sub-expression whose source text is listed under "externals" → the parameter (every external is
//     type-checked at the call site with types.Eval: an option that no longer exists is an error);
//     `v.F` where `v` is a local variable with exactly one definition `v := <E>`, never written again and
//     never address-taken, and <E> is listed under "aliases" is read as `<E>.F` (an options snapshot);
//   - constants (named or literal, typed or untyped) as evaluated by go/types, at the type go/types gives them;
//   - a local integer variable with exactly one definition, never written again, never address-taken: its
//     defining expression is translated in place (externals are values fixed for the whole call of `func`);
//   - parentheses, unary minus, binary + - * on operands of equal width (wrap-around, BitVec);
//   - conversions T(x) between the integer types of kind_func.go's goType: narrowing = truncation
//     (BitVec.setWidth), widening = sign extension for a signed source, zero extension otherwise.
//
// Every external is a parameter of every definition (used or not), in the order of the spec, so that two
// definitions can be compared as functions and an argument that reads the *wrong* option is still translated
// (and then refuted by the Tie theorem) instead of being rejected for an unknown name.

import (
	"fmt"
	"go/ast"
	"go/token"
	"go/types"
	"strings"

	"golang.org/x/tools/go/packages"
)

func init() { register("callexpr", kindCallExpr) }

type cxExternal struct {
	text, param string
	lt          ltype
	goType      string
}

type cxTrans struct {
	p       *packages.Package
	fd      *ast.FuncDecl
	ext     []cxExternal
	aliases map[string]bool
	depth   int
}

func (t *cxTrans) txt(e ast.Node) string { return exprText(t.p.Fset, e) }

func (t *cxTrans) external(text string) (cxExternal, bool) {
	for _, x := range t.ext {
		if x.text == text {
			return x, true
		}
	}
	return cxExternal{}, false
}

// localDef returns the defining expression of a local variable of t.fd that is defined exactly once and
// never written or address-taken afterwards.
func (t *cxTrans) localDef(id *ast.Ident) (ast.Expr, error) {
	obj, ok := t.p.TypesInfo.Uses[id].(*types.Var)
	if !ok || obj.IsField() {
		return nil, fmt.Errorf("identifier %s is not a local variable, constant or external", id.Name)
	}
	if obj.Pos() < t.fd.Body.Pos() || obj.Pos() > t.fd.Body.End() {
		return nil, fmt.Errorf("identifier %s is not a local variable of %s (parameter, receiver or package variable)", id.Name, t.fd.Name.Name)
	}
	var def ast.Expr
	var bad error
	refers := func(e ast.Expr) bool {
		i, ok := ast.Unparen(e).(*ast.Ident)
		if !ok {
			return false
		}
		return t.p.TypesInfo.Uses[i] == obj || t.p.TypesInfo.Defs[i] == obj
	}
	ast.Inspect(t.fd.Body, func(n ast.Node) bool {
		switch x := n.(type) {
		case *ast.AssignStmt:
			for i, l := range x.Lhs {
				if !refers(l) {
					continue
				}
				li, _ := ast.Unparen(l).(*ast.Ident)
				if x.Tok == token.DEFINE && li != nil && t.p.TypesInfo.Defs[li] == obj {
					if def != nil || len(x.Lhs) != len(x.Rhs) {
						bad = fmt.Errorf("local %s: not a single-value definition", id.Name)
					} else {
						def = x.Rhs[i]
					}
				} else {
					bad = fmt.Errorf("local %s is assigned more than once", id.Name)
				}
			}
		case *ast.ValueSpec:
			for i, nme := range x.Names {
				if t.p.TypesInfo.Defs[nme] == obj {
					if def != nil || len(x.Values) != len(x.Names) {
						bad = fmt.Errorf("local %s: declaration without a single initialiser", id.Name)
					} else {
						def = x.Values[i]
					}
				}
			}
		case *ast.IncDecStmt:
			if refers(x.X) {
				bad = fmt.Errorf("local %s is modified (%s)", id.Name, x.Tok)
			}
		case *ast.UnaryExpr:
			if x.Op == token.AND && refers(x.X) {
				bad = fmt.Errorf("address of local %s is taken", id.Name)
			}
		case *ast.RangeStmt:
			if (x.Key != nil && refers(x.Key)) || (x.Value != nil && refers(x.Value)) {
				bad = fmt.Errorf("local %s is a range variable", id.Name)
			}
		}
		return true
	})
	if bad != nil {
		return nil, bad
	}
	if def == nil {
		return nil, fmt.Errorf("no definition of local %s found in %s", id.Name, t.fd.Name.Name)
	}
	return def, nil
}

func (t *cxTrans) expr(e ast.Expr) (string, ltype, error) {
	t.depth++
	defer func() { t.depth-- }()
	if t.depth > 64 {
		return "", ltype{}, fmt.Errorf("expression too deep")
	}
	text := t.txt(e)
	if x, ok := t.external(text); ok {
		lt, err := goType(t.p.TypesInfo.TypeOf(e))
		if err != nil {
			return "", lt, err
		}
		if lt != x.lt {
			return "", lt, fmt.Errorf("external %s has type %s here, %s at the call site", text, lt.lean, x.lt.lean)
		}
		return x.param, lt, nil
	}
	if tv, ok := t.p.TypesInfo.Types[e]; ok && tv.Value != nil {
		lt, err := goType(tv.Type)
		if err != nil {
			return "", lt, err
		}
		if lt.width == 0 {
			return "", lt, fmt.Errorf("non-integer constant %s", text)
		}
		s, err := constLit(tv.Value, lt)
		return s, lt, err
	}
	switch x := e.(type) {
	case *ast.ParenExpr:
		return t.expr(x.X)
	case *ast.Ident:
		def, err := t.localDef(x)
		if err != nil {
			return "", ltype{}, err
		}
		want, err := goType(t.p.TypesInfo.TypeOf(x))
		if err != nil {
			return "", want, err
		}
		s, lt, err := t.expr(def)
		if err != nil {
			return "", lt, fmt.Errorf("local %s := %s: %v", x.Name, t.txt(def), err)
		}
		if lt != want {
			return "", lt, fmt.Errorf("local %s: type of the defining expression differs from the variable's", x.Name)
		}
		return s, lt, nil
	case *ast.SelectorExpr:
		if id, ok := x.X.(*ast.Ident); ok {
			if def, err := t.localDef(id); err == nil && t.aliases[t.txt(def)] {
				if ext, ok := t.external(t.txt(def) + "." + x.Sel.Name); ok {
					lt, err := goType(t.p.TypesInfo.TypeOf(e))
					if err != nil {
						return "", lt, err
					}
					if lt != ext.lt {
						return "", lt, fmt.Errorf("external %s has another type through the alias %s", ext.text, id.Name)
					}
					return ext.param, lt, nil
				}
			}
		}
		return "", ltype{}, fmt.Errorf("unsupported selector %s (not an external)", text)
	case *ast.UnaryExpr:
		s, lt, err := t.expr(x.X)
		if err != nil {
			return "", lt, err
		}
		if x.Op == token.SUB && lt.width > 0 {
			return "(-" + s + ")", lt, nil
		}
		if x.Op == token.ADD && lt.width > 0 {
			return s, lt, nil
		}
		return "", lt, fmt.Errorf("unsupported unary %s in %s", x.Op, text)
	case *ast.BinaryExpr:
		a, la, err := t.expr(x.X)
		if err != nil {
			return "", la, err
		}
		b, lb, err := t.expr(x.Y)
		if err != nil {
			return "", lb, err
		}
		if la.width == 0 || la != lb {
			return "", la, fmt.Errorf("operands of %s are not integers of one type", text)
		}
		sym, ok := map[token.Token]string{token.ADD: "+", token.SUB: "-", token.MUL: "*"}[x.Op]
		if !ok {
			return "", la, fmt.Errorf("unsupported operator %s in %s", x.Op, text)
		}
		return "(" + a + " " + sym + " " + b + ")", la, nil
	case *ast.CallExpr:
		if tv, ok := t.p.TypesInfo.Types[x.Fun]; ok && tv.IsType() && len(x.Args) == 1 {
			to, err := goType(tv.Type)
			if err != nil {
				return "", to, err
			}
			s, from, err := t.expr(x.Args[0])
			if err != nil {
				return "", from, err
			}
			if from.width == 0 || to.width == 0 {
				return "", to, fmt.Errorf("unsupported conversion %s", text)
			}
			switch {
			case from.width == to.width:
				return s, to, nil
			case to.width < from.width:
				return fmt.Sprintf("(BitVec.setWidth %d %s)", to.width, s), to, nil // Go: truncation to the low bits
			case from.signed:
				return fmt.Sprintf("(BitVec.signExtend %d %s)", to.width, s), to, nil
			default:
				return fmt.Sprintf("(BitVec.setWidth %d %s)", to.width, s), to, nil
			}
		}
		return "", ltype{}, fmt.Errorf("unsupported call %s", text)
	}
	return "", ltype{}, fmt.Errorf("unsupported expression %s", text)
}

func cxInt(it Item, k string) (int, bool) {
	if v, ok := it[k].(float64); ok && v == float64(int(v)) {
		return int(v), true
	}
	return 0, false
}

func kindCallExpr(c *Ctx, it Item) (string, error) {
	p, fd, err := c.FindFunc(it.Str("dir"), it.Str("func"))
	if err != nil {
		return "", err
	}
	callee, name := it.Str("callee"), it.Str("name")
	idx, ok := cxInt(it, "arg")
	if !ok || idx < 0 || callee == "" || name == "" {
		return "", fmt.Errorf("callexpr needs name, callee and a non-negative integer arg")
	}
	var calls []*ast.CallExpr
	ast.Inspect(fd.Body, func(n ast.Node) bool {
		if ce, ok := n.(*ast.CallExpr); ok && exprText(p.Fset, ce.Fun) == callee {
			calls = append(calls, ce)
		}
		return true
	})
	if len(calls) != 1 {
		return "", fmt.Errorf("%d calls of %s in %s, expected exactly one", len(calls), callee, it.Str("func"))
	}
	ce := calls[0]
	if ce.Ellipsis.IsValid() {
		return "", fmt.Errorf("call of %s spreads a slice (…)", callee)
	}
	if n, ok := cxInt(it, "nargs"); ok && n != len(ce.Args) {
		return "", fmt.Errorf("%s is called with %d arguments, expected %d", callee, len(ce.Args), n)
	}
	if idx >= len(ce.Args) {
		return "", fmt.Errorf("%s is called with %d arguments, no argument %d", callee, len(ce.Args), idx)
	}
	sig, ok := p.TypesInfo.TypeOf(ce.Fun).(*types.Signature)
	if !ok || sig.Variadic() || sig.Params().Len() != len(ce.Args) {
		return "", fmt.Errorf("%s: not a plain function of %d parameters", callee, len(ce.Args))
	}
	par := sig.Params().At(idx)
	if want := it.Str("param"); want != "" && par.Name() != want {
		return "", fmt.Errorf("parameter %d of %s is named %q, expected %q", idx, callee, par.Name(), want)
	}
	parLt, err := goType(par.Type())
	if err != nil || parLt.width == 0 {
		return "", fmt.Errorf("parameter %d of %s: type %s is not an integer type of the subset", idx, callee, par.Type())
	}
	qual := func(pk *types.Package) string { return pk.Name() }
	t := &cxTrans{p: p, fd: fd, aliases: map[string]bool{}}
	for _, a := range it.Strs("aliases") {
		t.aliases[a] = true
	}
	exts, _ := it["externals"].([]interface{})
	seen := map[string]bool{}
	for _, e := range exts {
		pair, _ := e.([]interface{})
		if len(pair) != 2 {
			return "", fmt.Errorf("externals must be a list of [expression, parameter] pairs")
		}
		text, _ := pair[0].(string)
		pn, _ := pair[1].(string)
		if text == "" || pn == "" || seen[text] || seen["param:"+pn] {
			return "", fmt.Errorf("bad or duplicate external %v", pair)
		}
		seen[text], seen["param:"+pn] = true, true
		tv, err := types.Eval(p.Fset, p.Types, ce.Pos(), text)
		if err != nil {
			return "", fmt.Errorf("external %s does not type-check at the call of %s: %v", text, callee, err)
		}
		lt, err := goType(tv.Type)
		if err != nil || lt.width == 0 {
			return "", fmt.Errorf("external %s: type %s is not an integer type of the subset", text, tv.Type)
		}
		if tv.Value != nil {
			return "", fmt.Errorf("external %s is a constant", text)
		}
		t.ext = append(t.ext, cxExternal{text: strings.Join(strings.Fields(text), " "), param: pn, lt: lt,
			goType: types.TypeString(tv.Type, qual)})
	}
	body, lt, err := t.expr(ce.Args[idx])
	if err != nil {
		return "", fmt.Errorf("argument %d of %s in %s: %v", idx, callee, it.Str("func"), err)
	}
	if lt.width != parLt.width {
		return "", fmt.Errorf("argument %d of %s: translated width %d, parameter width %d", idx, callee, lt.width, parLt.width)
	}
	var sb strings.Builder
	var params, tys []string
	for _, x := range t.ext {
		params = append(params, fmt.Sprintf("(%s : %s)", x.param, x.lt.lean))
		tys = append(tys, fmt.Sprintf("(%s, %s)", leanStr(x.param), leanStr(x.goType)))
	}
	fmt.Fprintf(&sb, "-- %s (%s): argument %d of %s, parameter `%s %s`; source: %s\n", it.Str("func"), it.Str("dir"), idx, callee,
		par.Name(), types.TypeString(par.Type(), qual), strings.ReplaceAll(exprText(p.Fset, ce.Args[idx]), "-/", "- /"))
	fmt.Fprintf(&sb, "def %s %s : %s :=\n  %s\n", name, strings.Join(params, " "), parLt.lean, body)
	fmt.Fprintf(&sb, "def %s.goType : String := %s\n", name, leanStr(types.TypeString(par.Type(), qual)))
	fmt.Fprintf(&sb, "def %s.goParam : String := %s\n", name, leanStr(par.Name()))
	fmt.Fprintf(&sb, "def %s.signed : Bool := %v\n", name, parLt.signed)
	fmt.Fprintf(&sb, "def %s.extTypes : List (String × String) := [%s]\n", name, strings.Join(tys, ", "))
	return sb.String(), nil
}
