package main

// kind "func": translate a small, pure-ish Go function into a Lean definition over BitVec.
//
// Accepted subset (anything else is REJECTED, never guessed):
//   - integer types int64/int/uint64/uint8 (and named types over them), bool, error results
//   - statements: := and = assignments (also op=, ++), var decls, if/else, tagless switch,
//     return (also bare return with named results), calls listed under "skip" (Lock/Unlock),
//     `for i := 0; i < len(b); i++ { … }` over a []byte parameter where the body reads b only
//     as b[i] (rendered as structural recursion over the list)
//   - expressions: + - * & | ^ << >> comparisons && || !, conversions between the integer
//     types, constants (evaluated by go/types), receiver field reads/writes, expressions
//     listed under "externals" (e.g. time.Now().UnixNano()) which become parameters
//
// Go semantics rendered: wrap-around arithmetic (BitVec), signed comparison via slt/sle,
// arithmetic shift for signed >>, logical for unsigned, shift counts taken as Nat.

import (
	"fmt"
	"go/ast"
	"go/constant"
	"go/token"
	"go/types"
	"math/big"
	"sort"
	"strings"

	"golang.org/x/tools/go/packages"
)

func init() { register("func", kindFunc) }

type ltype struct {
	lean   string // Lean type
	width  int    // bit width for BitVec types, 0 otherwise
	signed bool
}

func goType(t types.Type) (ltype, error) {
	if t == nil {
		return ltype{}, fmt.Errorf("untyped expression")
	}
	if n, ok := t.(*types.Named); ok && n.Obj().Name() == "error" {
		return ltype{lean: "String"}, nil
	}
	switch u := t.Underlying().(type) {
	case *types.Basic:
		switch u.Kind() {
		case types.Int64, types.Int, types.UntypedInt:
			return ltype{"BitVec 64", 64, true}, nil
		case types.Uint64, types.Uint:
			return ltype{"BitVec 64", 64, false}, nil
		case types.Int32:
			return ltype{"BitVec 32", 32, true}, nil
		case types.Uint32:
			return ltype{"BitVec 32", 32, false}, nil
		case types.Uint16:
			return ltype{"BitVec 16", 16, false}, nil
		case types.Uint8:
			return ltype{"BitVec 8", 8, false}, nil
		case types.Bool, types.UntypedBool:
			return ltype{lean: "Bool"}, nil
		}
	case *types.Interface:
		if t.String() == "error" {
			return ltype{lean: "String"}, nil
		}
	case *types.Slice:
		if b, ok := u.Elem().Underlying().(*types.Basic); ok && b.Kind() == types.Uint8 {
			return ltype{lean: "List (BitVec 8)"}, nil
		}
	}
	return ltype{}, fmt.Errorf("unsupported type %s", t)
}

type fenv struct {
	vars  map[string]string // Go variable / "recv.field" -> current Lean name
	types map[string]ltype
	order []string // declaration order (for loop-carried parameters)
}

func (e *fenv) clone() *fenv {
	n := &fenv{vars: map[string]string{}, types: map[string]ltype{}, order: append([]string{}, e.order...)}
	for k, v := range e.vars {
		n.vars[k] = v
	}
	for k, v := range e.types {
		n.types[k] = v
	}
	return n
}

type ftrans struct {
	p         *packages.Package
	fset      *token.FileSet
	name      string
	recv      string   // receiver variable name
	recvType  string   // Lean structure name
	fields    []string // receiver fields (ordered)
	results   []string // named results ("" if unnamed)
	resTypes  []ltype
	externals map[string]string
	skip      map[string]bool
	counter   int
	aux       []string
	loopSlice string
	loopIdx   string
	loopElem  string
	loopName  string
	loopCarry []string
	retType   string
}

func (t *ftrans) fresh(base string) string {
	t.counter++
	return fmt.Sprintf("%s_%d", strings.ReplaceAll(base, ".", "_"), t.counter)
}

func constLit(v constant.Value, lt ltype) (string, error) {
	if lt.width == 0 {
		if lt.lean == "Bool" {
			if constant.BoolVal(v) {
				return "true", nil
			}
			return "false", nil
		}
		return "", fmt.Errorf("constant of unsupported type %s", lt.lean)
	}
	iv := constant.ToInt(v)
	if iv.Kind() != constant.Int {
		return "", fmt.Errorf("non-integer constant %s", v)
	}
	bi, ok := new(big.Int).SetString(iv.ExactString(), 10)
	if !ok {
		return "", fmt.Errorf("bad constant %s", v)
	}
	if bi.Sign() < 0 {
		m := new(big.Int).Lsh(big.NewInt(1), uint(lt.width))
		bi.Add(bi, m)
	}
	return fmt.Sprintf("%s#%d", bi.String(), lt.width), nil
}

func (t *ftrans) expr(e ast.Expr, env *fenv) (string, ltype, error) {
	txt := exprText(t.fset, e)
	if p, ok := t.externals[txt]; ok {
		lt, err := goType(t.p.TypesInfo.TypeOf(e))
		return p, lt, err
	}
	if tv, ok := t.p.TypesInfo.Types[e]; ok && tv.Value != nil {
		lt, err := goType(tv.Type)
		if err != nil {
			return "", lt, err
		}
		s, err := constLit(tv.Value, lt)
		return s, lt, err
	}
	switch x := e.(type) {
	case *ast.ParenExpr:
		s, lt, err := t.expr(x.X, env)
		return "(" + s + ")", lt, err
	case *ast.Ident:
		if x.Name == "nil" {
			return "\"\"", ltype{lean: "String"}, nil
		}
		if x.Name == "true" || x.Name == "false" {
			return x.Name, ltype{lean: "Bool"}, nil
		}
		if v, ok := env.vars[x.Name]; ok {
			return v, env.types[x.Name], nil
		}
		// package-level error variable
		if obj := t.p.TypesInfo.Uses[x]; obj != nil {
			if lt, err := goType(obj.Type()); err == nil && lt.lean == "String" {
				return leanStr(x.Name), lt, nil
			}
		}
		return "", ltype{}, fmt.Errorf("unknown identifier %s", x.Name)
	case *ast.SelectorExpr:
		if id, ok := x.X.(*ast.Ident); ok && id.Name == t.recv {
			k := t.recv + "." + x.Sel.Name
			if v, ok := env.vars[k]; ok {
				return v, env.types[k], nil
			}
		}
		return "", ltype{}, fmt.Errorf("unsupported selector %s", txt)
	case *ast.IndexExpr:
		if id, ok := x.X.(*ast.Ident); ok && id.Name == t.loopSlice && t.loopSlice != "" {
			if ix, ok := x.Index.(*ast.Ident); ok && ix.Name == t.loopIdx {
				return t.loopElem, ltype{"BitVec 8", 8, false}, nil
			}
		}
		return "", ltype{}, fmt.Errorf("unsupported index expression %s", txt)
	case *ast.UnaryExpr:
		s, lt, err := t.expr(x.X, env)
		if err != nil {
			return "", lt, err
		}
		switch x.Op {
		case token.NOT:
			return "(!" + s + ")", lt, nil
		case token.SUB:
			return "(-" + s + ")", lt, nil
		case token.XOR:
			return "(~~~" + s + ")", lt, nil
		}
		return "", lt, fmt.Errorf("unsupported unary %s", x.Op)
	case *ast.BinaryExpr:
		a, la, err := t.expr(x.X, env)
		if err != nil {
			return "", la, err
		}
		b, lb, err := t.expr(x.Y, env)
		if err != nil {
			return "", lb, err
		}
		boolT := ltype{lean: "Bool"}
		switch x.Op {
		case token.LAND:
			return "(" + a + " && " + b + ")", boolT, nil
		case token.LOR:
			return "(" + a + " || " + b + ")", boolT, nil
		case token.EQL:
			return "(" + a + " == " + b + ")", boolT, nil
		case token.NEQ:
			return "(" + a + " != " + b + ")", boolT, nil
		}
		if la.width == 0 {
			return "", la, fmt.Errorf("operator %s on non-integer %s", x.Op, txt)
		}
		switch x.Op {
		case token.SHL:
			return "(" + a + " <<< (" + b + ").toNat)", la, nil
		case token.SHR:
			if la.signed {
				return "(BitVec.sshiftRight " + a + " (" + b + ").toNat)", la, nil
			}
			return "(" + a + " >>> (" + b + ").toNat)", la, nil
		}
		if la.width != lb.width {
			return "", la, fmt.Errorf("width mismatch in %s", txt)
		}
		switch x.Op {
		case token.ADD:
			return "(" + a + " + " + b + ")", la, nil
		case token.SUB:
			return "(" + a + " - " + b + ")", la, nil
		case token.MUL:
			return "(" + a + " * " + b + ")", la, nil
		case token.QUO:
			if la.signed {
				return "(BitVec.sdiv " + a + " " + b + ")", la, nil // Go truncated division; x/0 panics in Go (not modelled)
			}
			return "(" + a + " / " + b + ")", la, nil
		case token.REM:
			if la.signed {
				return "(BitVec.srem " + a + " " + b + ")", la, nil
			}
			return "(" + a + " % " + b + ")", la, nil
		case token.AND:
			return "(" + a + " &&& " + b + ")", la, nil
		case token.OR:
			return "(" + a + " ||| " + b + ")", la, nil
		case token.XOR:
			return "(" + a + " ^^^ " + b + ")", la, nil
		case token.LSS, token.LEQ, token.GTR, token.GEQ:
			l, r := a, b
			if x.Op == token.GTR || x.Op == token.GEQ {
				l, r = b, a
			}
			strict := x.Op == token.LSS || x.Op == token.GTR
			fn := map[[2]bool]string{{true, true}: "BitVec.slt", {true, false}: "BitVec.sle",
				{false, true}: "BitVec.ult", {false, false}: "BitVec.ule"}[[2]bool{la.signed, strict}]
			return "(" + fn + " " + l + " " + r + ")", boolT, nil
		}
		return "", la, fmt.Errorf("unsupported operator %s", x.Op)
	case *ast.CallExpr:
		// conversion T(x)
		if tv, ok := t.p.TypesInfo.Types[x.Fun]; ok && tv.IsType() && len(x.Args) == 1 {
			to, err := goType(tv.Type)
			if err != nil {
				return "", to, err
			}
			s, from, err := t.expr(x.Args[0], env)
			if err != nil {
				return "", from, err
			}
			if from.width == 0 || to.width == 0 {
				return "", to, fmt.Errorf("unsupported conversion %s", txt)
			}
			if from.width == to.width {
				return s, to, nil
			}
			if to.width < from.width {
				return fmt.Sprintf("(BitVec.setWidth %d %s)", to.width, s), to, nil
			}
			if from.signed {
				return fmt.Sprintf("(BitVec.signExtend %d %s)", to.width, s), to, nil
			}
			return fmt.Sprintf("(BitVec.setWidth %d %s)", to.width, s), to, nil
		}
		return "", ltype{}, fmt.Errorf("unsupported call %s", txt)
	}
	return "", ltype{}, fmt.Errorf("unsupported expression %s", txt)
}

func (t *ftrans) assign(lhs ast.Expr, val string, lt ltype, env *fenv, define bool) (string, error) {
	var key string
	switch x := lhs.(type) {
	case *ast.Ident:
		if x.Name == "_" {
			return "", nil
		}
		key = x.Name
	case *ast.SelectorExpr:
		id, ok := x.X.(*ast.Ident)
		if !ok || id.Name != t.recv {
			return "", fmt.Errorf("unsupported assignment target %s", exprText(t.fset, lhs))
		}
		key = t.recv + "." + x.Sel.Name
	default:
		return "", fmt.Errorf("unsupported assignment target %s", exprText(t.fset, lhs))
	}
	if _, ok := env.vars[key]; !ok {
		if !define {
			return "", fmt.Errorf("assignment to unknown %s", key)
		}
		env.order = append(env.order, key)
		env.types[key] = lt
	}
	n := t.fresh(key)
	env.vars[key] = n
	return fmt.Sprintf("let %s : %s := %s\n", n, env.types[key].lean, val), nil
}

func (t *ftrans) ret(vals []string, env *fenv) string {
	parts := []string{}
	if t.recv != "" {
		fs := []string{}
		for _, f := range t.fields {
			fs = append(fs, fmt.Sprintf("%s := %s", f, env.vars[t.recv+"."+f]))
		}
		parts = append(parts, "{ "+strings.Join(fs, ", ")+" : "+t.recvType+" }")
	}
	parts = append(parts, vals...)
	if len(parts) == 1 {
		return parts[0]
	}
	return "(" + strings.Join(parts, ", ") + ")"
}

var contMarker = &ast.EmptyStmt{}

// stmts translates a statement list in continuation style; every path must end in return
// (or in the loop-continue marker).
func (t *ftrans) stmts(list []ast.Stmt, env *fenv) (string, error) {
	if len(list) == 0 {
		return "", fmt.Errorf("control reaches end of function without return")
	}
	s, rest := list[0], list[1:]
	switch x := s.(type) {
	case *ast.EmptyStmt:
		if x == contMarker {
			args := []string{t.loopSlice + "_tl"}
			for _, k := range t.loopCarry {
				args = append(args, env.vars[k])
			}
			return t.loopName + " " + strings.Join(args, " "), nil
		}
		return t.stmts(rest, env)
	case *ast.ExprStmt:
		if c, ok := x.X.(*ast.CallExpr); ok {
			if t.skip[exprText(t.fset, c.Fun)] {
				return t.stmts(rest, env)
			}
		}
		return "", fmt.Errorf("unsupported statement %s", exprText(t.fset, s))
	case *ast.DeclStmt:
		gd, ok := x.Decl.(*ast.GenDecl)
		if !ok || gd.Tok != token.VAR {
			return "", fmt.Errorf("unsupported declaration")
		}
		out := ""
		for _, sp := range gd.Specs {
			vs := sp.(*ast.ValueSpec)
			for i, n := range vs.Names {
				lt, err := goType(t.p.TypesInfo.TypeOf(n))
				if err != nil {
					return "", err
				}
				val := zeroOf(lt)
				if len(vs.Values) > i {
					v, _, err := t.expr(vs.Values[i], env)
					if err != nil {
						return "", err
					}
					val = v
				}
				delete(env.vars, n.Name) // shadowing inside loop bodies
				l, err := t.assign(n, val, lt, env, true)
				if err != nil {
					return "", err
				}
				out += l
			}
		}
		r, err := t.stmts(rest, env)
		return out + r, err
	case *ast.IncDecStmt:
		v, lt, err := t.expr(x.X, env)
		if err != nil {
			return "", err
		}
		op := " + "
		if x.Tok == token.DEC {
			op = " - "
		}
		l, err := t.assign(x.X, fmt.Sprintf("(%s%s1#%d)", v, op, lt.width), lt, env, false)
		if err != nil {
			return "", err
		}
		r, err := t.stmts(rest, env)
		return l + r, err
	case *ast.AssignStmt:
		if len(x.Lhs) != len(x.Rhs) {
			return "", fmt.Errorf("unsupported multi-value assignment %s", exprText(t.fset, s))
		}
		vals := make([]string, len(x.Rhs))
		lts := make([]ltype, len(x.Rhs))
		for i := range x.Rhs {
			var rhs ast.Expr = x.Rhs[i]
			if x.Tok != token.ASSIGN && x.Tok != token.DEFINE {
				opTok, ok := map[token.Token]token.Token{token.ADD_ASSIGN: token.ADD, token.SUB_ASSIGN: token.SUB,
					token.MUL_ASSIGN: token.MUL, token.AND_ASSIGN: token.AND, token.OR_ASSIGN: token.OR,
					token.XOR_ASSIGN: token.XOR, token.SHL_ASSIGN: token.SHL, token.SHR_ASSIGN: token.SHR}[x.Tok]
				if !ok {
					return "", fmt.Errorf("unsupported assignment operator %s", x.Tok)
				}
				rhs = &ast.BinaryExpr{X: x.Lhs[i], Op: opTok, Y: x.Rhs[i]}
				// type info for the synthetic node: evaluate operands separately
				a, la, err := t.expr(x.Lhs[i], env)
				if err != nil {
					return "", err
				}
				b, _, err := t.expr(x.Rhs[i], env)
				if err != nil {
					return "", err
				}
				sym := map[token.Token]string{token.ADD: "+", token.SUB: "-", token.MUL: "*", token.AND: "&&&",
					token.OR: "|||", token.XOR: "^^^"}[opTok]
				if sym == "" {
					return "", fmt.Errorf("unsupported op-assign %s", x.Tok)
				}
				vals[i], lts[i] = "("+a+" "+sym+" "+b+")", la
				continue
			}
			v, lt, err := t.expr(rhs, env)
			if err != nil {
				return "", err
			}
			// the static type of the target decides the Lean type
			if tt := t.p.TypesInfo.TypeOf(x.Lhs[i]); tt != nil {
				if l2, err := goType(tt); err == nil {
					lt = l2
				}
			}
			vals[i], lts[i] = v, lt
		}
		out := ""
		for i := range x.Lhs {
			if x.Tok == token.DEFINE {
				if id, ok := x.Lhs[i].(*ast.Ident); ok {
					if _, isNew := t.p.TypesInfo.Defs[id]; isNew {
						delete(env.vars, id.Name)
					}
				}
			}
			l, err := t.assign(x.Lhs[i], vals[i], lts[i], env, x.Tok == token.DEFINE)
			if err != nil {
				return "", err
			}
			out += l
		}
		r, err := t.stmts(rest, env)
		return out + r, err
	case *ast.ReturnStmt:
		vals := []string{}
		if len(x.Results) == 0 {
			for _, n := range t.results {
				if n == "" {
					return "", fmt.Errorf("bare return without named results")
				}
				vals = append(vals, env.vars[n])
			}
		} else {
			for _, r := range x.Results {
				v, _, err := t.expr(r, env)
				if err != nil {
					return "", err
				}
				vals = append(vals, v)
			}
		}
		return t.ret(vals, env), nil
	case *ast.BlockStmt:
		return t.stmts(append(append([]ast.Stmt{}, x.List...), rest...), env)
	case *ast.IfStmt:
		if x.Init != nil {
			return "", fmt.Errorf("if with init statement not supported")
		}
		c, _, err := t.expr(x.Cond, env)
		if err != nil {
			return "", err
		}
		thenS := append(append([]ast.Stmt{}, x.Body.List...), rest...)
		var elseS []ast.Stmt
		if x.Else != nil {
			elseS = append([]ast.Stmt{x.Else}, rest...)
		} else {
			elseS = rest
		}
		a, err := t.stmts(thenS, env.clone())
		if err != nil {
			return "", err
		}
		b, err := t.stmts(elseS, env.clone())
		if err != nil {
			return "", err
		}
		return fmt.Sprintf("if %s then\n%s\nelse\n%s", c, indent(a), indent(b)), nil
	case *ast.SwitchStmt:
		if x.Tag != nil || x.Init != nil {
			return "", fmt.Errorf("only tagless switch supported")
		}
		// rewrite into an if-chain
		var chain ast.Stmt
		var def []ast.Stmt
		var clauses []*ast.CaseClause
		for _, c := range x.Body.List {
			cc := c.(*ast.CaseClause)
			if cc.List == nil {
				def = cc.Body
			} else {
				clauses = append(clauses, cc)
			}
		}
		chain = &ast.BlockStmt{List: def}
		for i := len(clauses) - 1; i >= 0; i-- {
			cc := clauses[i]
			if len(cc.List) != 1 {
				return "", fmt.Errorf("multi-expression case not supported")
			}
			chain = &ast.IfStmt{Cond: cc.List[0], Body: &ast.BlockStmt{List: cc.Body}, Else: chain}
		}
		return t.stmts(append([]ast.Stmt{chain}, rest...), env)
	case *ast.ForStmt:
		return t.forLoop(x, rest, env)
	}
	return "", fmt.Errorf("unsupported statement %s", exprText(t.fset, s))
}

func zeroOf(lt ltype) string {
	if lt.width > 0 {
		return fmt.Sprintf("0#%d", lt.width)
	}
	if lt.lean == "Bool" {
		return "false"
	}
	return "\"\""
}

func indent(s string) string {
	ls := strings.Split(s, "\n")
	for i := range ls {
		ls[i] = "  " + ls[i]
	}
	return strings.Join(ls, "\n")
}

// forLoop handles exactly: for i := 0; i < len(b); i++ { body }  (b a []byte parameter).
func (t *ftrans) forLoop(x *ast.ForStmt, rest []ast.Stmt, env *fenv) (string, error) {
	if t.loopName != "" {
		return "", fmt.Errorf("only one loop per function supported")
	}
	init, ok := x.Init.(*ast.AssignStmt)
	if !ok || init.Tok != token.DEFINE || len(init.Lhs) != 1 || exprText(t.fset, init.Rhs[0]) != "0" {
		return "", fmt.Errorf("unsupported loop header")
	}
	idx := init.Lhs[0].(*ast.Ident).Name
	cond, ok := x.Cond.(*ast.BinaryExpr)
	if !ok || cond.Op != token.LSS || exprText(t.fset, cond.X) != idx {
		return "", fmt.Errorf("unsupported loop condition")
	}
	call, ok := cond.Y.(*ast.CallExpr)
	if !ok || exprText(t.fset, call.Fun) != "len" {
		return "", fmt.Errorf("unsupported loop bound")
	}
	slice := exprText(t.fset, call.Args[0])
	if lt, ok := env.types[slice]; !ok || lt.lean != "List (BitVec 8)" {
		return "", fmt.Errorf("loop over %s: not a []byte parameter", slice)
	}
	post, ok := x.Post.(*ast.IncDecStmt)
	if !ok || post.Tok != token.INC || exprText(t.fset, post.X) != idx {
		return "", fmt.Errorf("unsupported loop post statement")
	}
	// the body must not mention the slice except as slice[idx], nor assign idx
	bad := false
	ast.Inspect(x.Body, func(n ast.Node) bool {
		if ie, ok := n.(*ast.IndexExpr); ok && exprText(t.fset, ie.X) == slice {
			if exprText(t.fset, ie.Index) != idx {
				bad = true
			}
			return false
		}
		if id, ok := n.(*ast.Ident); ok && (id.Name == slice || id.Name == idx) {
			bad = true
		}
		return true
	})
	if bad {
		return "", fmt.Errorf("loop body uses %s or %s other than as %s[%s]", slice, idx, slice, idx)
	}
	t.loopSlice, t.loopIdx = slice, idx
	t.loopName = t.name + ".loop"
	t.loopElem = slice + "_hd"
	carry := []string{}
	for _, k := range env.order {
		if k != slice {
			carry = append(carry, k)
		}
	}
	t.loopCarry = carry
	// entry call
	args := []string{env.vars[slice]}
	for _, k := range carry {
		args = append(args, env.vars[k])
	}
	// loop definition with fresh pattern variables
	lenv := env.clone()
	pats := []string{}
	tys := []string{"List (BitVec 8)"}
	for _, k := range carry {
		n := t.fresh(k)
		lenv.vars[k] = n
		pats = append(pats, n)
		tys = append(tys, lenv.types[k].lean)
	}
	exitEnv := lenv.clone()
	exitEnv.vars[slice] = "([] : List (BitVec 8))"
	exitBody, err := t.stmts(rest, exitEnv)
	if err != nil {
		return "", err
	}
	bodyEnv := lenv.clone()
	bodyEnv.vars[slice] = slice + "_tl"
	body, err := t.stmts(append(append([]ast.Stmt{}, x.Body.List...), contMarker), bodyEnv)
	if err != nil {
		return "", err
	}
	def := fmt.Sprintf("def %s : %s → %s\n  | [], %s =>\n%s\n  | %s :: %s_tl, %s =>\n%s\n",
		t.loopName, strings.Join(tys, " → "), t.retType,
		strings.Join(pats, ", "), indent(indent(exitBody)),
		t.loopElem, slice, strings.Join(pats, ", "), indent(indent(body)))
	t.aux = append(t.aux, def)
	return t.loopName + " " + strings.Join(args, " "), nil
}

func kindFunc(c *Ctx, it Item) (string, error) {
	p, fd, err := c.FindFunc(it.Str("dir"), it.Str("func"))
	if err != nil {
		return "", err
	}
	t := &ftrans{p: p, fset: p.Fset, name: it.Str("name"), externals: map[string]string{}, skip: map[string]bool{}}
	for _, s := range it.Strs("skip") {
		t.skip[s] = true
	}
	env := &fenv{vars: map[string]string{}, types: map[string]ltype{}}
	var sb strings.Builder
	params := []string{}
	// receiver → structure of its integer fields
	if fd.Recv != nil && len(fd.Recv.List) == 1 && len(fd.Recv.List[0].Names) == 1 {
		t.recv = fd.Recv.List[0].Names[0].Name
		rt := p.TypesInfo.TypeOf(fd.Recv.List[0].Type)
		if ptr, ok := rt.(*types.Pointer); ok {
			rt = ptr.Elem()
		}
		named, ok := rt.(*types.Named)
		if !ok {
			return "", fmt.Errorf("receiver is not a named type")
		}
		st, ok := named.Underlying().(*types.Struct)
		if !ok {
			// scalar receiver (e.g. `func (g guid) Hex()`): treat as ordinary parameter
			lt, err := goType(rt)
			if err != nil {
				return "", err
			}
			env.vars[t.recv], env.types[t.recv] = t.recv, lt
			env.order = append(env.order, t.recv)
			params = append(params, fmt.Sprintf("(%s : %s)", t.recv, lt.lean))
			t.recv = ""
		} else {
			t.recvType = it.Str("name") + "State"
			sb.WriteString("structure " + t.recvType + " where\n")
			for i := 0; i < st.NumFields(); i++ {
				f := st.Field(i)
				lt, err := goType(f.Type())
				if err != nil {
					continue // non-integer fields (mutex, …) are outside the translated state
				}
				t.fields = append(t.fields, f.Name())
				sb.WriteString(fmt.Sprintf("  %s : %s\n", f.Name(), lt.lean))
				k := t.recv + "." + f.Name()
				env.vars[k], env.types[k] = t.recv+"."+f.Name(), lt
			}
			sb.WriteString("deriving DecidableEq, Repr\n\n")
			params = append(params, fmt.Sprintf("(%s : %s)", t.recv, t.recvType))
		}
	}
	for _, f := range fd.Type.Params.List {
		lt, err := goType(p.TypesInfo.TypeOf(f.Type))
		if err != nil {
			return "", err
		}
		for _, n := range f.Names {
			env.vars[n.Name], env.types[n.Name] = n.Name, lt
			env.order = append(env.order, n.Name)
			params = append(params, fmt.Sprintf("(%s : %s)", n.Name, lt.lean))
		}
	}
	if ex, ok := it["externals"].(map[string]interface{}); ok {
		keys := []string{}
		for k := range ex {
			keys = append(keys, k)
		}
		sort.Strings(keys)
		for _, k := range keys {
			pn := ex[k].(string)
			t.externals[k] = pn
			params = append(params, fmt.Sprintf("(%s : BitVec 64)", pn))
		}
	}
	rts := []string{}
	if t.recvType != "" {
		rts = append(rts, t.recvType)
	}
	pre := ""
	if fd.Type.Results != nil {
		for _, f := range fd.Type.Results.List {
			lt, err := goType(p.TypesInfo.TypeOf(f.Type))
			if err != nil {
				return "", err
			}
			if len(f.Names) == 0 {
				t.results = append(t.results, "")
				t.resTypes = append(t.resTypes, lt)
				rts = append(rts, lt.lean)
			}
			for _, n := range f.Names {
				t.results = append(t.results, n.Name)
				t.resTypes = append(t.resTypes, lt)
				rts = append(rts, lt.lean)
				l, err := t.assign(n, zeroOf(lt), lt, env, true)
				if err != nil {
					return "", err
				}
				pre += l
			}
		}
	}
	t.retType = strings.Join(rts, " × ")
	body, err := t.stmts(fd.Body.List, env)
	if err != nil {
		return "", err
	}
	for _, a := range t.aux {
		sb.WriteString(a + "\n")
	}
	sb.WriteString(fmt.Sprintf("def %s %s : %s :=\n%s\n", t.name, strings.Join(params, " "), t.retType, indent(pre+body)))
	return sb.String(), nil
}
