package main

// kind "afunc": the `func` translator for small methods that work on a struct through sync/atomic.
//
//	{"kind":"afunc","name","dir","func",
//	 "fields":   ["ReadyCount","InFlightCount", …]        receiver fields that make up the Lean state
//	 "effects":  {"c.tryUpdateReadyState": "wake"}          calls that become `ghost counter field ++`
//	 "skip":     ["c.nsqd.logf"]                             calls that are dropped
//	 "externals":{"c.Channel.IsPaused()": "paused:Bool"}}   expressions that become parameters
//
// The function body is first rewritten (on a copy — the package's syntax tree is shared with the
// other extractors) and then handed to the statement translator of kind "func" unchanged:
//
//	atomic.LoadInt64(&c.F) / LoadInt32 / LoadUint64      → c.F
//	atomic.StoreInt64(&c.F, x) / StoreInt32              → c.F = x
//	atomic.AddInt64(&c.F, x) / AddUint64 / AddInt32      → c.F += x      (statement position)
//	v := atomic.SwapInt64(&c.F, x)                        → v := c.F ; c.F = x
//	<effect call>                                         → c.<ghost>++
//	a function without results gets a final `return`
//
// Each of these is the sequentially consistent reading of the atomic operation: the translated
// definition describes the method run in isolation (what the model's atomic step needs); the
// interleavings between methods are the business of the micro-step models.
// Anything else is REJECTED by the underlying translator, never guessed.

import (
	"fmt"
	"go/ast"
	"go/token"
	"go/types"
	"sort"
	"strings"
)

func init() { register("afunc", kindAFunc) }

type arewrite struct {
	t       *ftrans
	effects map[string]string
	err     error
}

// atomicField recognises atomic.<Op>(&recv.F, …) and returns Op, F
func (r *arewrite) atomicCall(e ast.Expr) (op string, field *ast.SelectorExpr, args []ast.Expr, ok bool) {
	c, isCall := e.(*ast.CallExpr)
	if !isCall {
		return
	}
	sel, isSel := c.Fun.(*ast.SelectorExpr)
	if !isSel {
		return
	}
	pkg, isId := sel.X.(*ast.Ident)
	if !isId || pkg.Name != "atomic" || len(c.Args) == 0 {
		return
	}
	u, isU := c.Args[0].(*ast.UnaryExpr)
	if !isU || u.Op != token.AND {
		return
	}
	f, isF := u.X.(*ast.SelectorExpr)
	if !isF {
		return
	}
	if id, isRecv := f.X.(*ast.Ident); !isRecv || id.Name != r.t.recv {
		return
	}
	return sel.Sel.Name, f, c.Args[1:], true
}

func (r *arewrite) expr(e ast.Expr) ast.Expr {
	if op, f, _, ok := r.atomicCall(e); ok && strings.HasPrefix(op, "Load") {
		return f
	}
	switch x := e.(type) {
	case *ast.ParenExpr:
		return &ast.ParenExpr{X: r.expr(x.X)}
	case *ast.UnaryExpr:
		return &ast.UnaryExpr{Op: x.Op, X: r.expr(x.X)}
	case *ast.BinaryExpr:
		return &ast.BinaryExpr{X: r.expr(x.X), Op: x.Op, Y: r.expr(x.Y)}
	}
	return e
}

func (r *arewrite) block(list []ast.Stmt) []ast.Stmt {
	var out []ast.Stmt
	for _, s := range list {
		out = append(out, r.stmt(s)...)
	}
	return out
}

func (r *arewrite) stmt(s ast.Stmt) []ast.Stmt {
	switch x := s.(type) {
	case *ast.ExprStmt:
		if op, f, args, ok := r.atomicCall(x.X); ok {
			switch {
			case strings.HasPrefix(op, "Add") && len(args) == 1:
				return []ast.Stmt{&ast.AssignStmt{Lhs: []ast.Expr{f}, Tok: token.ADD_ASSIGN, Rhs: []ast.Expr{args[0]}}}
			case strings.HasPrefix(op, "Store") && len(args) == 1:
				return []ast.Stmt{&ast.AssignStmt{Lhs: []ast.Expr{f}, Tok: token.ASSIGN, Rhs: []ast.Expr{args[0]}}}
			}
			r.err = fmt.Errorf("unsupported atomic statement %s", exprText(r.t.fset, s))
			return nil
		}
		if c, ok := x.X.(*ast.CallExpr); ok {
			if g, ok := r.effects[exprText(r.t.fset, c.Fun)]; ok {
				return []ast.Stmt{&ast.IncDecStmt{X: &ast.SelectorExpr{X: ast.NewIdent(r.t.recv), Sel: ast.NewIdent(g)}, Tok: token.INC}}
			}
		}
		return []ast.Stmt{s}
	case *ast.AssignStmt:
		if len(x.Lhs) == 1 && len(x.Rhs) == 1 {
			if op, f, args, ok := r.atomicCall(x.Rhs[0]); ok && strings.HasPrefix(op, "Swap") && len(args) == 1 {
				return []ast.Stmt{
					&ast.AssignStmt{Lhs: x.Lhs, Tok: x.Tok, Rhs: []ast.Expr{f}},
					&ast.AssignStmt{Lhs: []ast.Expr{f}, Tok: token.ASSIGN, Rhs: []ast.Expr{args[0]}},
				}
			}
		}
		rhs := make([]ast.Expr, len(x.Rhs))
		for i := range x.Rhs {
			rhs[i] = r.expr(x.Rhs[i])
		}
		return []ast.Stmt{&ast.AssignStmt{Lhs: x.Lhs, Tok: x.Tok, Rhs: rhs}}
	case *ast.IfStmt:
		n := &ast.IfStmt{Init: x.Init, Cond: r.expr(x.Cond), Body: &ast.BlockStmt{List: r.block(x.Body.List)}}
		if x.Else != nil {
			el := r.stmt(x.Else)
			if len(el) == 1 {
				n.Else = el[0]
			} else {
				n.Else = &ast.BlockStmt{List: el}
			}
		}
		return []ast.Stmt{n}
	case *ast.BlockStmt:
		return []ast.Stmt{&ast.BlockStmt{List: r.block(x.List)}}
	case *ast.ReturnStmt:
		res := make([]ast.Expr, len(x.Results))
		for i := range x.Results {
			res[i] = r.expr(x.Results[i])
		}
		return []ast.Stmt{&ast.ReturnStmt{Results: res}}
	}
	return []ast.Stmt{s}
}

func kindAFunc(c *Ctx, it Item) (string, error) {
	p, fd, err := c.FindFunc(it.Str("dir"), it.Str("func"))
	if err != nil {
		return "", err
	}
	if fd.Recv == nil || len(fd.Recv.List) != 1 || len(fd.Recv.List[0].Names) != 1 {
		return "", fmt.Errorf("afunc needs a method with a named receiver")
	}
	t := &ftrans{p: p, fset: p.Fset, name: it.Str("name"), externals: map[string]string{}, skip: map[string]bool{}}
	for _, s := range it.Strs("skip") {
		t.skip[s] = true
	}
	t.recv = fd.Recv.List[0].Names[0].Name
	rt := p.TypesInfo.TypeOf(fd.Recv.List[0].Type)
	if ptr, ok := rt.(*types.Pointer); ok {
		rt = ptr.Elem()
	}
	named, ok := rt.(*types.Named)
	if !ok {
		return "", fmt.Errorf("receiver is not a named type")
	}
	st, ok := named.Underlying().(*types.Struct)
	if !ok {
		return "", fmt.Errorf("receiver is not a struct")
	}
	env := &fenv{vars: map[string]string{}, types: map[string]ltype{}}
	var sb strings.Builder
	t.recvType = it.Str("name") + "State"
	sb.WriteString("structure " + t.recvType + " where\n")
	want := map[string]bool{}
	for _, f := range it.Strs("fields") {
		want[f] = true
	}
	for i := 0; i < st.NumFields(); i++ {
		f := st.Field(i)
		if !want[f.Name()] {
			continue
		}
		lt, err := goType(f.Type())
		if err != nil {
			return "", fmt.Errorf("field %s: %v", f.Name(), err)
		}
		delete(want, f.Name())
		t.fields = append(t.fields, f.Name())
		sb.WriteString(fmt.Sprintf("  %s : %s\n", f.Name(), lt.lean))
		k := t.recv + "." + f.Name()
		env.vars[k], env.types[k] = t.recv+"."+f.Name(), lt
	}
	for f := range want {
		return "", fmt.Errorf("receiver has no integer field %s", f)
	}
	rw := &arewrite{t: t, effects: map[string]string{}}
	if ef, ok := it["effects"].(map[string]interface{}); ok {
		keys := []string{}
		for k := range ef {
			keys = append(keys, k)
		}
		sort.Strings(keys)
		seen := map[string]bool{}
		for _, k := range keys {
			g := ef[k].(string)
			rw.effects[k] = g
			if !seen[g] {
				seen[g] = true
				lt := ltype{"BitVec 64", 64, false}
				t.fields = append(t.fields, g)
				sb.WriteString(fmt.Sprintf("  %s : %s   -- ghost: number of calls of %s\n", g, lt.lean, k))
				env.vars[t.recv+"."+g], env.types[t.recv+"."+g] = t.recv+"."+g, lt
			}
		}
	}
	sb.WriteString("deriving DecidableEq, Repr\n\n")
	params := []string{fmt.Sprintf("(%s : %s)", t.recv, t.recvType)}
	for _, f := range fd.Type.Params.List {
		lt, err := goType(p.TypesInfo.TypeOf(f.Type))
		if err != nil {
			return "", err
		}
		for _, n := range f.Names {
			env.vars[n.Name], env.types[n.Name] = n.Name, lt
			env.order = append(env.order, n.Name)
			params = append(params, fmt.Sprintf("(%s : %s)", n.Name, lt.lean))
		}
	}
	if ex, ok := it["externals"].(map[string]interface{}); ok {
		keys := []string{}
		for k := range ex {
			keys = append(keys, k)
		}
		sort.Strings(keys)
		for _, k := range keys {
			parts := strings.SplitN(ex[k].(string), ":", 2)
			ty := "BitVec 64"
			if len(parts) == 2 {
				ty = parts[1]
			}
			t.externals[k] = parts[0]
			params = append(params, fmt.Sprintf("(%s : %s)", parts[0], ty))
		}
	}
	rts := []string{t.recvType}
	if fd.Type.Results != nil {
		for _, f := range fd.Type.Results.List {
			lt, err := goType(p.TypesInfo.TypeOf(f.Type))
			if err != nil {
				return "", err
			}
			if len(f.Names) != 0 {
				return "", fmt.Errorf("afunc: named results not supported")
			}
			t.results = append(t.results, "")
			t.resTypes = append(t.resTypes, lt)
			rts = append(rts, lt.lean)
		}
	}
	t.retType = strings.Join(rts, " × ")
	body := rw.block(fd.Body.List)
	if rw.err != nil {
		return "", rw.err
	}
	if fd.Type.Results == nil {
		if n := len(body); n == 0 || func() bool { _, isRet := body[n-1].(*ast.ReturnStmt); return !isRet }() {
			body = append(body, &ast.ReturnStmt{})
		}
	}
	txt, err := t.stmts(body, env)
	if err != nil {
		return "", err
	}
	sb.WriteString(fmt.Sprintf("def %s %s : %s :=\n%s\n", t.name, strings.Join(params, " "), t.retType, indent(txt)))
	return sb.String(), nil
}
