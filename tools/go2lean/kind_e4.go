package main

// Extractors added for engine E4 (nsqlookupd).
//
//	stmts_opt: as stmts; [] when the function does not exist
//	calls_opt: as calls; [] when the function does not exist
//	routes3 {"name","dir","func"} → def <name> : List (String × String × String)
//	        (method, path, handler) for router.Handle / router.HandlerFunc / router.Handler
//	        calls with literal method and path; handler = the function wrapped by
//	        http_api.Decorate, else the printed expression.

import (
	"fmt"
	"go/ast"
	"strconv"
	"strings"
)

func init() {
	register("routes3", kindRoutes3)
	register("stmts_opt", kindStmtsOpt)
	register("calls_opt", kindCallsOpt)
	register("loopexits", kindLoopExits)
}

// loopexits {"name","dir","func"} → def <name> : List String
// Every way out of (or around) the FIRST `for` statement of the function, in source order:
// "break", "continue", "return", "goto", "panic" statements inside the loop body (function literals and
// nested loops/switches that capture an unlabelled break are not entered for break/continue),
// each with the chain of enclosing if-conditions, outermost first:  "break | if err != nil".
// Then "after: <n> statements" — how many statements follow the loop in the function body
// (the code every `break` falls into).
func kindLoopExits(c *Ctx, it Item) (string, error) {
	p, fd, err := c.FindFunc(it.Str("dir"), it.Str("func"))
	if err != nil {
		return "", err
	}
	var loop *ast.ForStmt
	after := 0
	for i, st := range fd.Body.List {
		if f, ok := st.(*ast.ForStmt); ok {
			loop = f
			after = len(fd.Body.List) - i - 1
			break
		}
	}
	if loop == nil {
		return "", fmt.Errorf("no top-level for statement in %s", it.Str("func"))
	}
	var rows []string
	var walk func(n ast.Node, conds []string, breakable bool)
	add := func(kind string, conds []string) {
		row := kind
		if len(conds) > 0 {
			row += " | " + strings.Join(conds, " && ")
		}
		rows = append(rows, row)
	}
	walk = func(n ast.Node, conds []string, inner bool) {
		switch x := n.(type) {
		case nil:
			return
		case *ast.BlockStmt:
			for _, st := range x.List {
				walk(st, conds, inner)
			}
		case *ast.IfStmt:
			cond := "if " + exprText(p.Fset, x.Cond)
			if x.Init != nil {
				cond = "if " + exprText(p.Fset, x.Init) + "; " + exprText(p.Fset, x.Cond)
			}
			walk(x.Body, append(append([]string{}, conds...), cond), inner)
			if x.Else != nil {
				walk(x.Else, append(append([]string{}, conds...), "else of "+cond), inner)
			}
		case *ast.BranchStmt:
			if x.Label != nil {
				add(x.Tok.String()+" "+x.Label.Name, conds)
			} else if !inner || x.Tok.String() == "goto" {
				add(x.Tok.String(), conds)
			}
		case *ast.ReturnStmt:
			add("return", conds)
		case *ast.ExprStmt:
			if ce, ok := x.X.(*ast.CallExpr); ok {
				if nm := calleeName(ce.Fun); nm == "panic" || nm == "Exit" || nm == "Fatalf" || nm == "Goexit" {
					add(nm, conds)
				}
			}
		case *ast.ForStmt:
			walk(x.Body, append(append([]string{}, conds...), "for"), true)
		case *ast.RangeStmt:
			walk(x.Body, append(append([]string{}, conds...), "range"), true)
		case *ast.SwitchStmt:
			walk(x.Body, append(append([]string{}, conds...), "switch"), true)
		case *ast.TypeSwitchStmt:
			walk(x.Body, append(append([]string{}, conds...), "switch"), true)
		case *ast.SelectStmt:
			walk(x.Body, append(append([]string{}, conds...), "select"), true)
		case *ast.CaseClause:
			for _, st := range x.Body {
				walk(st, conds, inner)
			}
		case *ast.CommClause:
			for _, st := range x.Body {
				walk(st, conds, inner)
			}
		case *ast.LabeledStmt:
			walk(x.Stmt, conds, inner)
		}
	}
	walk(loop.Body, nil, false)
	rows = append(rows, fmt.Sprintf("after: %d statements", after))
	return fmt.Sprintf("def %s : List String := [\n  %s]\n", it.Str("name"), strings.Join(quoteAll(rows), ",\n  ")), nil
}

// stmts_opt: like `stmts`, but a function that does not exist yields the empty list (used for
// code that only exists after a proposed fix; the tie then names both accepted shapes).
func kindStmtsOpt(c *Ctx, it Item) (string, error) {
	if _, _, err := c.FindFunc(it.Str("dir"), it.Str("func")); err != nil {
		if strings.Contains(err.Error(), "not found") {
			return fmt.Sprintf("def %s : List String := []\n", it.Str("name")), nil
		}
		return "", err
	}
	return kindStmts(c, it)
}

// calls_opt: like `calls`, but a function that does not exist yields the empty list.
func kindCallsOpt(c *Ctx, it Item) (string, error) {
	if _, _, err := c.FindFunc(it.Str("dir"), it.Str("func")); err != nil {
		if strings.Contains(err.Error(), "not found") {
			return fmt.Sprintf("def %s : List String := []\n", it.Str("name")), nil
		}
		return "", err
	}
	return kindCalls(c, it)
}

func kindRoutes3(c *Ctx, it Item) (string, error) {
	p, fd, err := c.FindFunc(it.Str("dir"), it.Str("func"))
	if err != nil {
		return "", err
	}
	var rows []string
	var bad error
	ast.Inspect(fd.Body, func(n ast.Node) bool {
		ce, ok := n.(*ast.CallExpr)
		if !ok {
			return true
		}
		nm := calleeName(ce.Fun)
		if nm != "Handle" && nm != "HandlerFunc" && nm != "Handler" {
			return true
		}
		if _, isSel := ce.Fun.(*ast.SelectorExpr); !isSel || len(ce.Args) != 3 {
			return true
		}
		m, ok1 := ce.Args[0].(*ast.BasicLit)
		pa, ok2 := ce.Args[1].(*ast.BasicLit)
		if !ok1 || !ok2 {
			bad = fmt.Errorf("route with non-literal method/path: %s", exprText(p.Fset, ce))
			return true
		}
		method, _ := strconv.Unquote(m.Value)
		path, _ := strconv.Unquote(pa.Value)
		handler := exprText(p.Fset, ce.Args[2])
		if dc, ok := ce.Args[2].(*ast.CallExpr); ok && calleeName(dc.Fun) == "Decorate" && len(dc.Args) >= 1 {
			handler = calleeName(dc.Args[0])
		}
		rows = append(rows, fmt.Sprintf("(%s, %s, %s)", leanStr(method), leanStr(path), leanStr(handler)))
		return true
	})
	if bad != nil {
		return "", bad
	}
	if len(rows) == 0 {
		return "", fmt.Errorf("no routes found in %s", it.Str("func"))
	}
	return fmt.Sprintf("def %s : List (String × String × String) := [\n  %s]\n", it.Str("name"), strings.Join(rows, ",\n  ")), nil
}
