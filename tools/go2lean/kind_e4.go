package main

// Extractors added for engine E4 (nsqlookupd).
//
//	stmts_opt: as stmts; [] when the function does not exist
//	routes3 {"name","dir","func"} → def <name> : List (String × String × String)
//	        (method, path, handler) for router.Handle / router.HandlerFunc / router.Handler
//	        calls with literal method and path; handler = the function wrapped by
//	        http_api.Decorate, else the printed expression.

import (
	"fmt"
	"go/ast"
	"strconv"
	"strings"
)

func init() {
	register("routes3", kindRoutes3)
	register("stmts_opt", kindStmtsOpt)
}

// stmts_opt: like `stmts`, but a function that does not exist yields the empty list (used for
// code that only exists after a proposed fix; the tie then names both accepted shapes).
func kindStmtsOpt(c *Ctx, it Item) (string, error) {
	if _, _, err := c.FindFunc(it.Str("dir"), it.Str("func")); err != nil {
		if strings.Contains(err.Error(), "not found") {
			return fmt.Sprintf("def %s : List String := []\n", it.Str("name")), nil
		}
		return "", err
	}
	return kindStmts(c, it)
}

func kindRoutes3(c *Ctx, it Item) (string, error) {
	p, fd, err := c.FindFunc(it.Str("dir"), it.Str("func"))
	if err != nil {
		return "", err
	}
	var rows []string
	var bad error
	ast.Inspect(fd.Body, func(n ast.Node) bool {
		ce, ok := n.(*ast.CallExpr)
		if !ok {
			return true
		}
		nm := calleeName(ce.Fun)
		if nm != "Handle" && nm != "HandlerFunc" && nm != "Handler" {
			return true
		}
		if _, isSel := ce.Fun.(*ast.SelectorExpr); !isSel || len(ce.Args) != 3 {
			return true
		}
		m, ok1 := ce.Args[0].(*ast.BasicLit)
		pa, ok2 := ce.Args[1].(*ast.BasicLit)
		if !ok1 || !ok2 {
			bad = fmt.Errorf("route with non-literal method/path: %s", exprText(p.Fset, ce))
			return true
		}
		method, _ := strconv.Unquote(m.Value)
		path, _ := strconv.Unquote(pa.Value)
		handler := exprText(p.Fset, ce.Args[2])
		if dc, ok := ce.Args[2].(*ast.CallExpr); ok && calleeName(dc.Fun) == "Decorate" && len(dc.Args) >= 1 {
			handler = calleeName(dc.Args[0])
		}
		rows = append(rows, fmt.Sprintf("(%s, %s, %s)", leanStr(method), leanStr(path), leanStr(handler)))
		return true
	})
	if bad != nil {
		return "", bad
	}
	if len(rows) == 0 {
		return "", fmt.Errorf("no routes found in %s", it.Str("func"))
	}
	return fmt.Sprintf("def %s : List (String × String × String) := [\n  %s]\n", it.Str("name"), strings.Join(rows, ",\n  ")), nil
}
