// Extractors for the state-changing methods of internal/clusterinfo/data.go (engine E7, property C17).
//
//	ciprog      a `ClusterInfo` action method → a `Nsq.Model.AdminProg.Prog`: the sequence of
//	            nsqlookupdPOST / Get*Producers / producersPOST calls, each with the way its error is
//	            handled (aggregate | abort | ignore) and its guard (`if len(channelName) > 0`), and the
//	            ending (`return ErrList(errs)` when there is one | `return nil`). A trailing
//	            `return c.<helper>(…, "uri", qs)` is inlined (arguments substituted).
//	cipostloop  nsqlookupdPOST / producersPOST → a `PostLoop`: POSTV1 calls per pass, ways out of the loop,
//	            whether every error is appended and the list returned, the endpoint format.
//	cifallback  GetProducers / GetTopicProducers → (call when nsqlookupds are configured, call otherwise),
//	            recognising `len(x) != 0`, `len(x) > 0`, `0 < len(x)`, `0 != len(x)` and the swapped `len(x) == 0`.
//
// The extraction is semantic, not textual: renaming a variable, reordering independent declarations,
// adding log lines does not change the result; anything that is not understood fails the run.
package main

import (
	"fmt"
	"go/ast"
	"go/token"
	"strconv"
	"strings"
)

func init() {
	register("ciprog", kindCIProg)
	register("cipostloop", kindCIPostLoop)
	register("cifallback", kindCIFallback)
}

type ciEnv struct {
	c       *Ctx
	dir     string
	fset    *token.FileSet
	qs      map[string]string // variable → QS constructor
	lit     map[string]string // variable → string literal (inlined helper parameters)
	topicP  string
	chanP   string
	nodeP   string
	lkP     string
	nsqdP   string
	steps   []string
	ending  string
	depth   int
	inlined int
}

func ciIdent(e ast.Expr) string {
	if id, ok := e.(*ast.Ident); ok {
		return id.Name
	}
	return ""
}

func ciStrLit(e ast.Expr) (string, bool) {
	if bl, ok := e.(*ast.BasicLit); ok && bl.Kind == token.STRING {
		s, err := strconv.Unquote(bl.Value)
		return s, err == nil
	}
	return "", false
}

// ciErrNotNil: `err != nil`
func ciErrNotNil(e ast.Expr) bool {
	be, ok := e.(*ast.BinaryExpr)
	return ok && be.Op == token.NEQ && ciIdent(be.X) == "err" && ciIdent(be.Y) == "nil"
}

// ciLenGtZero: `len(x) > 0` / `len(x) != 0` / `0 < len(x)`; returns x
func ciLenTest(e ast.Expr) (name string, positive bool, ok bool) {
	be, isb := e.(*ast.BinaryExpr)
	if !isb {
		return "", false, false
	}
	lenOf := func(x ast.Expr) string {
		if ce, ok := x.(*ast.CallExpr); ok && ciIdent(ce.Fun) == "len" && len(ce.Args) == 1 {
			return ciIdent(ce.Args[0])
		}
		return ""
	}
	isZero := func(x ast.Expr) bool {
		bl, ok := x.(*ast.BasicLit)
		return ok && bl.Value == "0"
	}
	if n := lenOf(be.X); n != "" && isZero(be.Y) {
		switch be.Op {
		case token.GTR, token.NEQ:
			return n, true, true
		case token.EQL:
			return n, false, true
		}
	}
	if n := lenOf(be.Y); n != "" && isZero(be.X) {
		switch be.Op {
		case token.LSS, token.NEQ:
			return n, true, true
		case token.EQL:
			return n, false, true
		}
	}
	return "", false, false
}

func (e *ciEnv) fail(n ast.Node, why string) error {
	return fmt.Errorf("ciprog: %s: `%s`", why, exprText(e.fset, n))
}

// classify the statement after an err-producing call
func (e *ciEnv) onErr(next ast.Stmt) (string, bool, error) {
	ifs, ok := next.(*ast.IfStmt)
	if !ok || ifs.Init != nil || !ciErrNotNil(ifs.Cond) {
		return ".ignore", false, nil
	}
	if ifs.Else != nil {
		return "", false, e.fail(ifs, "error handling with an else branch")
	}
	b := ifs.Body.List
	if len(b) == 1 {
		if rs, ok := b[0].(*ast.ReturnStmt); ok && len(rs.Results) == 1 && ciIdent(rs.Results[0]) == "err" {
			return ".abort", true, nil
		}
	}
	if len(b) == 3 {
		// pe, ok := err.(PartialErr)
		a0, ok0 := b[0].(*ast.AssignStmt)
		i1, ok1 := b[1].(*ast.IfStmt)
		a2, ok2 := b[2].(*ast.AssignStmt)
		if ok0 && ok1 && ok2 && len(a0.Lhs) == 2 && len(a0.Rhs) == 1 {
			ta, isTA := a0.Rhs[0].(*ast.TypeAssertExpr)
			pe, okv := ciIdent(a0.Lhs[0]), ciIdent(a0.Lhs[1])
			good := isTA && ciIdent(ta.X) == "err" && ciIdent(ta.Type) == "PartialErr"
			// if !ok { return err }
			if un, isU := i1.Cond.(*ast.UnaryExpr); !(isU && un.Op == token.NOT && ciIdent(un.X) == okv) || i1.Else != nil || len(i1.Body.List) != 1 {
				good = false
			} else if rs, isR := i1.Body.List[0].(*ast.ReturnStmt); !(isR && len(rs.Results) == 1 && ciIdent(rs.Results[0]) == "err") {
				good = false
			}
			// errs = append(errs, pe.Errors()...)
			if good && len(a2.Lhs) == 1 && len(a2.Rhs) == 1 && a2.Tok == token.ASSIGN && ciIdent(a2.Lhs[0]) == "errs" {
				if ce, isC := a2.Rhs[0].(*ast.CallExpr); isC && ciIdent(ce.Fun) == "append" && len(ce.Args) == 2 &&
					ciIdent(ce.Args[0]) == "errs" && ce.Ellipsis != token.NoPos {
					if inner, isI := ce.Args[1].(*ast.CallExpr); isI && len(inner.Args) == 0 {
						if sel, isS := inner.Fun.(*ast.SelectorExpr); isS && ciIdent(sel.X) == pe && sel.Sel.Name == "Errors" {
							return ".aggregate", true, nil
						}
					}
				}
			}
		}
	}
	return "", false, e.fail(ifs, "unrecognised error handling")
}

func (e *ciEnv) qsOf(x ast.Expr) (string, error) {
	if n := ciIdent(x); n != "" {
		if q, ok := e.qs[n]; ok {
			return q, nil
		}
	}
	return "", e.fail(x, "query string is not a variable bound by a recognised fmt.Sprintf")
}

func (e *ciEnv) uriOf(x ast.Expr) (string, error) {
	if s, ok := ciStrLit(x); ok {
		return s, nil
	}
	if n := ciIdent(x); n != "" {
		if s, ok := e.lit[n]; ok {
			return s, nil
		}
	}
	return "", e.fail(x, "uri is not a string literal")
}

// sprintf query strings
func (e *ciEnv) bindQS(lhs string, ce *ast.CallExpr) error {
	if len(ce.Args) < 2 {
		return e.fail(ce, "Sprintf without arguments")
	}
	f, ok := ciStrLit(ce.Args[0])
	if !ok {
		return e.fail(ce, "Sprintf format is not a literal")
	}
	var args []string
	for _, a := range ce.Args[1:] {
		c2, ok := a.(*ast.CallExpr)
		if !ok || exprText(e.fset, c2.Fun) != "url.QueryEscape" || len(c2.Args) != 1 || ciIdent(c2.Args[0]) == "" {
			return e.fail(a, "query-string argument is not url.QueryEscape(<parameter>)")
		}
		args = append(args, ciIdent(c2.Args[0]))
	}
	switch {
	case f == "topic=%s" && len(args) == 1 && args[0] == e.topicP:
		e.qs[lhs] = ".topic"
	case f == "topic=%s&channel=%s" && len(args) == 2 && args[0] == e.topicP && args[1] == e.chanP && e.chanP != "":
		e.qs[lhs] = ".topicChannel"
	case f == "topic=%s&node=%s" && len(args) == 2 && args[0] == e.topicP && args[1] == e.nodeP && e.nodeP != "":
		e.qs[lhs] = ".topicNode"
	default:
		return e.fail(ce, "unrecognised query string")
	}
	return nil
}

func (e *ciEnv) block(stmts []ast.Stmt, guard string, top bool) error {
	for i := 0; i < len(stmts); i++ {
		st := stmts[i]
		switch x := st.(type) {
		case *ast.DeclStmt:
			continue
		case *ast.ExprStmt:
			if ce, ok := x.X.(*ast.CallExpr); ok && calleeName(ce.Fun) == "logf" {
				continue
			}
			return e.fail(st, "unrecognised statement")
		case *ast.AssignStmt:
			if len(x.Rhs) != 1 {
				return e.fail(st, "unrecognised assignment")
			}
			ce, ok := x.Rhs[0].(*ast.CallExpr)
			if !ok {
				return e.fail(st, "unrecognised assignment")
			}
			callee := calleeName(ce.Fun)
			if exprText(e.fset, ce.Fun) == "fmt.Sprintf" {
				if len(x.Lhs) != 1 || ciIdent(x.Lhs[0]) == "" {
					return e.fail(st, "Sprintf result not bound to a variable")
				}
				if x.Tok == token.DEFINE && guard != ".always" {
					// a shadowing `qs :=` inside the guarded block: the binding ends with the block (handled by the caller's copy)
				}
				if err := e.bindQS(ciIdent(x.Lhs[0]), ce); err != nil {
					return err
				}
				continue
			}
			var op string
			switch callee {
			case "nsqlookupdPOST":
				if len(ce.Args) != 3 || ciIdent(ce.Args[0]) != e.lkP || e.lkP == "" {
					return e.fail(ce, "nsqlookupdPOST not over the nsqlookupd address parameter")
				}
				uri, err := e.uriOf(ce.Args[1])
				if err != nil {
					return err
				}
				q, err := e.qsOf(ce.Args[2])
				if err != nil {
					return err
				}
				op = fmt.Sprintf("(.lookupdPost %s %s)", leanStr(uri), q)
			case "producersPOST":
				if len(ce.Args) != 3 || ciIdent(ce.Args[0]) != "producers" {
					return e.fail(ce, "producersPOST not over `producers`")
				}
				uri, err := e.uriOf(ce.Args[1])
				if err != nil {
					return err
				}
				q, err := e.qsOf(ce.Args[2])
				if err != nil {
					return err
				}
				op = fmt.Sprintf("(.producersPost %s %s)", leanStr(uri), q)
			case "GetTopicProducers":
				if len(ce.Args) != 3 || ciIdent(ce.Args[0]) != e.topicP || ciIdent(ce.Args[1]) != e.lkP || ciIdent(ce.Args[2]) != e.nsqdP || e.nsqdP == "" {
					return e.fail(ce, "GetTopicProducers with unexpected arguments")
				}
				op = "(.lookup .topicProducers)"
			case "GetLookupdTopicProducers":
				if len(ce.Args) != 2 || ciIdent(ce.Args[0]) != e.topicP || ciIdent(ce.Args[1]) != e.lkP {
					return e.fail(ce, "GetLookupdTopicProducers with unexpected arguments")
				}
				op = "(.lookup .lookupdTopicProducers)"
			case "GetNSQDProducers":
				cl, ok := ce.Args[0].(*ast.CompositeLit)
				if len(ce.Args) != 1 || !ok || len(cl.Elts) != 1 || ciIdent(cl.Elts[0]) != e.nodeP || e.nodeP == "" {
					return e.fail(ce, "GetNSQDProducers not over []string{node}")
				}
				op = "(.lookup .nsqdProducersOfNode)"
			default:
				return e.fail(st, "unrecognised call")
			}
			if strings.Contains(op, ".lookup ") {
				if len(x.Lhs) != 2 || ciIdent(x.Lhs[0]) != "producers" || ciIdent(x.Lhs[1]) != "err" {
					return e.fail(st, "lookup result not bound to `producers, err`")
				}
			} else if len(x.Lhs) != 1 || ciIdent(x.Lhs[0]) != "err" {
				return e.fail(st, "POST result not bound to `err`")
			}
			pol := ".ignore"
			if i+1 < len(stmts) {
				p, consumed, err := e.onErr(stmts[i+1])
				if err != nil {
					return err
				}
				pol = p
				if consumed {
					i++
				}
			}
			e.steps = append(e.steps, fmt.Sprintf("⟨%s, %s, %s⟩", guard, op, pol))
		case *ast.IfStmt:
			if x.Init != nil {
				return e.fail(st, "unrecognised if")
			}
			if n, pos, ok := ciLenTest(x.Cond); ok && pos && n == e.chanP && e.chanP != "" && x.Else == nil {
				if guard != ".always" {
					return e.fail(st, "nested guard")
				}
				saved := map[string]string{}
				for k, v := range e.qs {
					saved[k] = v
				}
				if err := e.block(x.Body.List, ".channelGiven", false); err != nil {
					return err
				}
				e.qs = saved
				continue
			}
			if n, pos, ok := ciLenTest(x.Cond); ok && pos && n == "errs" && top && x.Else == nil && len(x.Body.List) == 1 {
				if rs, isR := x.Body.List[0].(*ast.ReturnStmt); isR && len(rs.Results) == 1 && exprText(e.fset, rs.Results[0]) == "ErrList(errs)" {
					// must be followed by `return nil` as the last statement
					if i+2 == len(stmts) {
						if r2, ok := stmts[i+1].(*ast.ReturnStmt); ok && len(r2.Results) == 1 && ciIdent(r2.Results[0]) == "nil" {
							e.ending = ".errList"
							return nil
						}
					}
				}
			}
			return e.fail(st, "unrecognised if")
		case *ast.ReturnStmt:
			if !top || i+1 != len(stmts) || len(x.Results) != 1 {
				return e.fail(st, "unrecognised return")
			}
			if ciIdent(x.Results[0]) == "nil" {
				e.ending = ".dropErrs"
				return nil
			}
			// return c.<helper>(topic, lookupds, nsqds, "uri", qs): inline
			ce, ok := x.Results[0].(*ast.CallExpr)
			if !ok || e.inlined > 0 {
				return e.fail(st, "unrecognised return")
			}
			_, hfd, err := e.c.FindFunc(e.dir, "(*ClusterInfo)."+calleeName(ce.Fun))
			if err != nil {
				return e.fail(st, "helper not found")
			}
			var params []string
			for _, f := range hfd.Type.Params.List {
				for _, n := range f.Names {
					params = append(params, n.Name)
				}
			}
			if len(params) != len(ce.Args) {
				return e.fail(st, "helper arity")
			}
			inner := &ciEnv{c: e.c, dir: e.dir, fset: e.fset, qs: map[string]string{}, lit: map[string]string{}, inlined: 1}
			for k, p := range params {
				a := ce.Args[k]
				switch {
				case ciIdent(a) == e.topicP && e.topicP != "":
					inner.topicP = p
				case ciIdent(a) == e.chanP && e.chanP != "":
					inner.chanP = p
				case ciIdent(a) == e.lkP && e.lkP != "":
					inner.lkP = p
				case ciIdent(a) == e.nsqdP && e.nsqdP != "":
					inner.nsqdP = p
				default:
					if s, ok := ciStrLit(a); ok {
						inner.lit[p] = s
					} else if q, ok := e.qs[ciIdent(a)]; ok {
						inner.qs[p] = q
					} else {
						return e.fail(a, "helper argument not understood")
					}
				}
			}
			if err := inner.block(hfd.Body.List, ".always", true); err != nil {
				return err
			}
			e.steps = append(e.steps, inner.steps...)
			e.ending = inner.ending
			return nil
		default:
			return e.fail(st, "unrecognised statement")
		}
	}
	if top {
		return fmt.Errorf("ciprog: method does not end in a recognised return")
	}
	return nil
}

func ciParams(fd *ast.FuncDecl, e *ciEnv) {
	for _, f := range fd.Type.Params.List {
		for _, n := range f.Names {
			l := strings.ToLower(n.Name)
			switch {
			case strings.HasPrefix(l, "lookupd"):
				e.lkP = n.Name
			case strings.HasPrefix(l, "nsqd"):
				e.nsqdP = n.Name
			case strings.HasPrefix(l, "topic"):
				e.topicP = n.Name
			case strings.HasPrefix(l, "channel"):
				e.chanP = n.Name
			case l == "node":
				e.nodeP = n.Name
			}
		}
	}
}

func kindCIProg(c *Ctx, it Item) (string, error) {
	p, fd, err := c.FindFunc(it.Str("dir"), it.Str("func"))
	if err != nil {
		return "", err
	}
	e := &ciEnv{c: c, dir: it.Str("dir"), fset: p.Fset, qs: map[string]string{}, lit: map[string]string{}}
	ciParams(fd, e)
	if err := e.block(fd.Body.List, ".always", true); err != nil {
		return "", fmt.Errorf("%s: %v", it.Str("func"), err)
	}
	return fmt.Sprintf("open Nsq.Model.AdminProg in\ndef %s : Nsq.Model.AdminProg.Prog := ⟨[\n  %s], %s⟩\n",
		it.Str("name"), strings.Join(e.steps, ",\n  "), e.ending), nil
}

func kindCIPostLoop(c *Ctx, it Item) (string, error) {
	p, fd, err := c.FindFunc(it.Str("dir"), it.Str("func"))
	if err != nil {
		return "", err
	}
	var loops []*ast.RangeStmt
	for _, st := range fd.Body.List {
		if rs, ok := st.(*ast.RangeStmt); ok {
			loops = append(loops, rs)
		}
		if _, ok := st.(*ast.ForStmt); ok {
			return "", fmt.Errorf("cipostloop %s: a plain for loop", it.Str("func"))
		}
		if _, ok := st.(*ast.GoStmt); ok {
			return "", fmt.Errorf("cipostloop %s: a go statement", it.Str("func"))
		}
	}
	if len(loops) != 1 {
		return "", fmt.Errorf("cipostloop %s: expected exactly one range loop at top level, got %d", it.Str("func"), len(loops))
	}
	// what the loop ranges over and what each pass addresses (audit C21: `range addrs[:1]` must not pass)
	var params []string
	for _, f := range fd.Type.Params.List {
		for _, n := range f.Names {
			params = append(params, n.Name)
		}
	}
	ranges := exprText(p.Fset, loops[0].X)
	if len(params) > 0 && ranges == params[0] {
		ranges = "param0"
	}
	elem := ""
	if loops[0].Value != nil {
		elem = ciIdent(loops[0].Value)
	}
	if loops[0].Key != nil && ciIdent(loops[0].Key) != "_" {
		ranges = "keyed:" + ranges
	}
	target, passes := "", false
	perPass, exits, appends, format := 0, 0, false, ""
	ast.Inspect(loops[0].Body, func(n ast.Node) bool {
		switch x := n.(type) {
		case *ast.AssignStmt:
			// the loop variable (or anything the endpoint is built from) must not be reassigned inside the pass
			for _, l := range x.Lhs {
				if id := ciIdent(l); id != "" && (id == elem || (len(params) > 0 && id == params[0])) {
					exits++
				}
			}
		case *ast.CallExpr:
			if calleeName(x.Fun) == "POSTV1" {
				perPass++
				if len(x.Args) == 0 || ciIdent(x.Args[0]) != "endpoint" {
					exits++ // the request does not go to the endpoint built in this pass
				}
			}
			if exprText(p.Fset, x.Fun) == "fmt.Sprintf" && len(x.Args) > 0 {
				if s, ok := ciStrLit(x.Args[0]); ok && strings.HasPrefix(s, "http") {
					format = s
					if len(x.Args) == 4 {
						t := exprText(p.Fset, x.Args[1])
						switch {
						case elem != "" && t == elem:
							target = "elem"
						case elem != "" && t == elem+".HTTPAddress()":
							target = "elem.HTTPAddress()"
						default:
							target = t
						}
						passes = len(params) == 3 && ciIdent(x.Args[2]) == params[1] && ciIdent(x.Args[3]) == params[2]
					}
				}
			}
		case *ast.BranchStmt, *ast.ReturnStmt, *ast.GoStmt, *ast.DeferStmt:
			exits++
		case *ast.IfStmt:
			if ciErrNotNil(x.Cond) && x.Else == nil && len(x.Body.List) == 1 &&
				exprText(p.Fset, x.Body.List[0]) == "errs = append(errs, err)" {
				appends = true
			}
		}
		return true
	})
	// nested loops inside the pass would multiply the requests
	nested := 0
	ast.Inspect(loops[0].Body, func(n ast.Node) bool {
		switch n.(type) {
		case *ast.ForStmt, *ast.RangeStmt:
			nested++
		}
		return true
	})
	exits += nested
	returns := false
	for i, st := range fd.Body.List {
		if ifs, ok := st.(*ast.IfStmt); ok {
			if n, pos, ok := ciLenTest(ifs.Cond); ok && pos && n == "errs" && len(ifs.Body.List) == 1 &&
				exprText(p.Fset, ifs.Body.List[0]) == "return ErrList(errs)" && i+2 == len(fd.Body.List) {
				returns = true
			}
		}
	}
	b := func(x bool) string {
		if x {
			return "true"
		}
		return "false"
	}
	return fmt.Sprintf("def %s : Nsq.Model.AdminProg.PostLoop := ⟨%d, %d, %s, %s, %s, %s, %s, %s⟩\n",
		it.Str("name"), perPass, exits, b(appends), b(returns), leanStr(format), leanStr(ranges), leanStr(target), b(passes)), nil
}

func kindCIFallback(c *Ctx, it Item) (string, error) {
	p, fd, err := c.FindFunc(it.Str("dir"), it.Str("func"))
	if err != nil {
		return "", err
	}
	b := fd.Body.List
	bad := fmt.Errorf("cifallback %s: not of the form `if len(lookupds) != 0 { return c.A(…) }; return c.B(…)`", it.Str("func"))
	if len(b) != 2 {
		return "", bad
	}
	ifs, ok := b[0].(*ast.IfStmt)
	ret, ok2 := b[1].(*ast.ReturnStmt)
	if !ok || !ok2 || ifs.Else != nil || ifs.Init != nil || len(ifs.Body.List) != 1 || len(ret.Results) != 1 {
		return "", bad
	}
	r1, ok := ifs.Body.List[0].(*ast.ReturnStmt)
	if !ok || len(r1.Results) != 1 {
		return "", bad
	}
	n, pos, ok := ciLenTest(ifs.Cond)
	if !ok || !strings.HasPrefix(strings.ToLower(n), "lookupd") {
		return "", bad
	}
	call := func(x ast.Expr) (string, []string) {
		ce, ok := x.(*ast.CallExpr)
		if !ok {
			return "", nil
		}
		var args []string
		for _, a := range ce.Args {
			args = append(args, exprText(p.Fset, a))
		}
		return calleeName(ce.Fun), args
	}
	a, aArgs := call(r1.Results[0])
	bb, bArgs := call(ret.Results[0])
	if a == "" || bb == "" {
		return "", bad
	}
	if !pos {
		a, bb = bb, a
		aArgs, bArgs = bArgs, aArgs
	}
	// the lookupd branch must be handed the lookupd addresses, the other one the nsqd addresses
	has := func(args []string, pre string) bool {
		for _, x := range args {
			if strings.HasPrefix(strings.ToLower(x), pre) {
				return true
			}
		}
		return false
	}
	if !has(aArgs, "lookupd") || has(aArgs, "nsqd") || !has(bArgs, "nsqd") || has(bArgs, "lookupd") {
		return "", bad
	}
	return fmt.Sprintf("def %s : String × String := (%s, %s)\n", it.Str("name"), leanStr(a), leanStr(bb)), nil
}
