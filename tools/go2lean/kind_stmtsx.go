package main

// Structure-preserving fact extractors (audit round 7, B28: kind `stmts` keeps only if-conditions,
// assignments, returns and case expressions, without nesting — it cannot see an added call statement,
// an `else`, a `break`/`continue`/`goto`, a `go`/`defer`, or a statement moved into / out of a branch).
//
//	stmtsx      {"name","dir","func","match": optional substring list,"within": optional substring}
//	            → def <name> : List (Nat × String × String) — EVERY statement of the function in source order,
//	              one row (depth, kind, text); depth = nesting depth of the enclosing block (function body = 0);
//	              kinds: if / elseif / else (markers at the depth of the `if`), for, range, switch, typeswitch,
//	              select, case, default, comm, assign, expr, return, break, continue, goto, fallthrough,
//	              go, defer, send, incdec, decl, label, block. Function literals are entered (kind `func`
//	              marker, body one level deeper). With "match", only rows whose text contains one of the
//	              substrings are kept (depth and kind still shown). With "within", only the first statement
//	              whose row contains the substring and the rows nested under it.
//	structwrites {"name","dir","type","fields": [...]}   (kind `fieldwrites` of kind_gate.go: one field, no `&f.x`)
//	            → def <name> : List (String × String) — (enclosing function, statement text) of every
//	              assignment / inc-dec in the package's non-test files whose left side is <expr>.<field>
//	              with <expr> of (pointer to) the named struct type and <field> in the list. Answers
//	              "who writes these fields" whatever the writer is called.
//	fielduses   {"name","dir","type","field"}
//	            → def <name> : List (String × String) — (enclosing function, text of the innermost enclosing
//	              statement) of every mention of <type>.<field> in the package's non-test files.

import (
	"fmt"
	"go/ast"
	"go/token"
	"go/types"
	"strings"

	"golang.org/x/tools/go/packages"
)

func init() {
	register("stmtsx", kindStmtsX)
	register("structwrites", kindStructWrites)
	register("fielduses", kindFieldUses)
}

type stmtsxWalker struct {
	p      *packages.Package
	rows   []string // Lean triples
	plain  []string // "<depth> <kind> <text>" (for the match filter)
	depths []int
}

func (w *stmtsxWalker) add(depth int, kind string, n ast.Node) {
	txt := ""
	if n != nil {
		txt = exprText(w.p.Fset, n)
	}
	w.raw(depth, kind, txt)
}

func (w *stmtsxWalker) raw(depth int, kind, txt string) {
	w.rows = append(w.rows, fmt.Sprintf("(%d, %s, %s)", depth, leanStr(kind), leanStr(txt)))
	w.plain = append(w.plain, fmt.Sprintf("%d %s %s", depth, kind, txt))
	w.depths = append(w.depths, depth)
}

// funcLits walks the function literals inside an expression / simple statement
func (w *stmtsxWalker) funcLits(depth int, n ast.Node) {
	if n == nil {
		return
	}
	ast.Inspect(n, func(x ast.Node) bool {
		if fl, ok := x.(*ast.FuncLit); ok {
			w.add(depth, "func", fl.Type)
			w.block(depth+1, fl.Body)
			return false
		}
		return true
	})
}

func (w *stmtsxWalker) block(depth int, b *ast.BlockStmt) {
	if b == nil {
		return
	}
	for _, s := range b.List {
		w.stmt(depth, s)
	}
}

func (w *stmtsxWalker) ifStmt(depth int, kind string, x *ast.IfStmt) {
	if x.Init != nil {
		w.stmt(depth, x.Init)
	}
	w.add(depth, kind, x.Cond)
	w.funcLits(depth, x.Cond)
	w.block(depth+1, x.Body)
	switch e := x.Else.(type) {
	case *ast.IfStmt:
		w.ifStmt(depth, "elseif", e)
	case *ast.BlockStmt:
		w.add(depth, "else", nil)
		w.block(depth+1, e)
	}
}

func (w *stmtsxWalker) stmt(depth int, s ast.Stmt) {
	switch x := s.(type) {
	case *ast.IfStmt:
		w.ifStmt(depth, "if", x)
	case *ast.ForStmt:
		if x.Init != nil {
			w.stmt(depth, x.Init)
		}
		if x.Cond != nil {
			w.add(depth, "for", x.Cond)
		} else {
			w.add(depth, "for", nil)
		}
		w.block(depth+1, x.Body)
		if x.Post != nil {
			w.stmt(depth+1, x.Post)
		}
	case *ast.RangeStmt:
		hdr := "range " + exprText(w.p.Fset, x.X)
		if x.Key != nil {
			k := exprText(w.p.Fset, x.Key)
			if x.Value != nil {
				k += ", " + exprText(w.p.Fset, x.Value)
			}
			hdr = k + " " + x.Tok.String() + " " + hdr
		}
		w.raw(depth, "range", hdr)
		w.block(depth+1, x.Body)
	case *ast.SwitchStmt:
		if x.Init != nil {
			w.stmt(depth, x.Init)
		}
		if x.Tag != nil {
			w.add(depth, "switch", x.Tag)
		} else {
			w.add(depth, "switch", nil)
		}
		w.block(depth+1, x.Body)
	case *ast.TypeSwitchStmt:
		if x.Init != nil {
			w.stmt(depth, x.Init)
		}
		w.add(depth, "typeswitch", x.Assign)
		w.block(depth+1, x.Body)
	case *ast.SelectStmt:
		w.add(depth, "select", nil)
		w.block(depth+1, x.Body)
	case *ast.CaseClause:
		if x.List == nil {
			w.add(depth, "default", nil)
		} else {
			var parts []string
			for _, e := range x.List {
				parts = append(parts, exprText(w.p.Fset, e))
			}
			w.raw(depth, "case", strings.Join(parts, ", "))
		}
		for _, b := range x.Body {
			w.stmt(depth+1, b)
		}
	case *ast.CommClause:
		if x.Comm == nil {
			w.add(depth, "default", nil)
		} else {
			w.add(depth, "comm", x.Comm)
		}
		for _, b := range x.Body {
			w.stmt(depth+1, b)
		}
	case *ast.BlockStmt:
		w.add(depth, "block", nil)
		w.block(depth+1, x)
	case *ast.LabeledStmt:
		w.add(depth, "label", x.Label)
		w.stmt(depth, x.Stmt)
	case *ast.AssignStmt:
		w.add(depth, "assign", x)
		w.funcLits(depth, x)
	case *ast.ExprStmt:
		w.add(depth, "expr", x.X)
		w.funcLits(depth, x.X)
	case *ast.ReturnStmt:
		var parts []string
		for _, e := range x.Results {
			parts = append(parts, exprText(w.p.Fset, e))
		}
		w.raw(depth, "return", strings.Join(parts, ", "))
		w.funcLits(depth, x)
	case *ast.BranchStmt:
		kind := strings.ToLower(x.Tok.String())
		if x.Label != nil {
			w.add(depth, kind, x.Label)
		} else {
			w.add(depth, kind, nil)
		}
	case *ast.GoStmt:
		w.add(depth, "go", x.Call)
		w.funcLits(depth, x.Call)
	case *ast.DeferStmt:
		w.add(depth, "defer", x.Call)
		w.funcLits(depth, x.Call)
	case *ast.SendStmt:
		w.add(depth, "send", x)
	case *ast.IncDecStmt:
		w.add(depth, "incdec", x)
	case *ast.DeclStmt:
		w.add(depth, "decl", x)
		w.funcLits(depth, x)
	case *ast.EmptyStmt:
	default:
		w.add(depth, "other", x)
	}
}

func kindStmtsX(c *Ctx, it Item) (string, error) {
	p, fd, err := c.FindFunc(it.Str("dir"), it.Str("func"))
	if err != nil {
		return "", err
	}
	if fd.Body == nil {
		return "", fmt.Errorf("%s has no body", it.Str("func"))
	}
	w := &stmtsxWalker{p: p}
	w.block(0, fd.Body)
	rows := w.rows
	if within := it.Str("within"); within != "" {
		// only the first statement whose row contains `within`, with everything nested under it
		start := -1
		for i, r := range w.plain {
			if strings.Contains(r, within) {
				start = i
				break
			}
		}
		if start < 0 {
			return "", fmt.Errorf("%s: no statement contains %q", it.Str("func"), within)
		}
		end := start + 1
		for end < len(w.depths) && w.depths[end] > w.depths[start] {
			end++
		}
		rows, w.plain = rows[start:end], w.plain[start:end]
	}
	if pats := it.Strs("match"); len(pats) > 0 {
		var keep []string
		for i, r := range rows {
			for _, pa := range pats {
				if strings.Contains(w.plain[i], pa) {
					keep = append(keep, r)
					break
				}
			}
		}
		rows = keep
	}
	return fmt.Sprintf("def %s : List (Nat × String × String) := [\n  %s]\n", it.Str("name"), strings.Join(rows, ",\n  ")), nil
}

// isNamedStruct: t is the named type `name` of package p, or a pointer to it
func isNamedStruct(t types.Type, p *packages.Package, name string) bool {
	if t == nil {
		return false
	}
	if pt, ok := t.(*types.Pointer); ok {
		t = pt.Elem()
	}
	nt, ok := t.(*types.Named)
	return ok && nt.Obj().Name() == name && nt.Obj().Pkg() == p.Types
}

// forEachFuncNonTest calls fn(funcName, decl) for every function of the package outside _test.go files
func forEachFuncNonTest(p *packages.Package, fn func(name string, fd *ast.FuncDecl)) {
	for _, f := range p.Syntax {
		if strings.HasSuffix(p.Fset.File(f.Pos()).Name(), "_test.go") {
			continue
		}
		for _, d := range f.Decls {
			fd, ok := d.(*ast.FuncDecl)
			if !ok || fd.Body == nil {
				continue
			}
			name := fd.Name.Name
			if fd.Recv != nil && len(fd.Recv.List) == 1 {
				name = "(" + exprText(p.Fset, fd.Recv.List[0].Type) + ")." + name
			}
			fn(name, fd)
		}
	}
}

func kindStructWrites(c *Ctx, it Item) (string, error) {
	p, err := c.Pkg(it.Str("dir"))
	if err != nil {
		return "", err
	}
	tn := it.Str("type")
	if obj := p.Types.Scope().Lookup(tn); obj == nil {
		return "", fmt.Errorf("type %s not found", tn)
	}
	fields := map[string]bool{}
	for _, f := range it.Strs("fields") {
		fields[f] = true
	}
	isTarget := func(e ast.Expr) bool {
		for {
			if pe, ok := e.(*ast.ParenExpr); ok {
				e = pe.X
				continue
			}
			break
		}
		se, ok := e.(*ast.SelectorExpr)
		if !ok || !fields[se.Sel.Name] {
			return false
		}
		return isNamedStruct(p.TypesInfo.TypeOf(se.X), p, tn)
	}
	var rows []string
	forEachFuncNonTest(p, func(name string, fd *ast.FuncDecl) {
		ast.Inspect(fd.Body, func(n ast.Node) bool {
			switch x := n.(type) {
			case *ast.AssignStmt:
				for _, l := range x.Lhs {
					if isTarget(l) {
						rows = append(rows, fmt.Sprintf("(%s, %s)", leanStr(name), leanStr(exprText(p.Fset, x))))
						break
					}
				}
			case *ast.IncDecStmt:
				if isTarget(x.X) {
					rows = append(rows, fmt.Sprintf("(%s, %s)", leanStr(name), leanStr(exprText(p.Fset, x))))
				}
			case *ast.UnaryExpr:
				// &f.field handed to someone else (e.g. atomic.AddInt64(&f.sequence, 1)) is a potential write
				if x.Op == token.AND && isTarget(x.X) {
					rows = append(rows, fmt.Sprintf("(%s, %s)", leanStr(name), leanStr("addr "+exprText(p.Fset, x))))
				}
			}
			return true
		})
	})
	return fmt.Sprintf("def %s : List (String × String) := [\n  %s]\n", it.Str("name"), strings.Join(rows, ",\n  ")), nil
}

func kindFieldUses(c *Ctx, it Item) (string, error) {
	p, err := c.Pkg(it.Str("dir"))
	if err != nil {
		return "", err
	}
	tn, field := it.Str("type"), it.Str("field")
	if obj := p.Types.Scope().Lookup(tn); obj == nil {
		return "", fmt.Errorf("type %s not found", tn)
	}
	var rows []string
	forEachFuncNonTest(p, func(name string, fd *ast.FuncDecl) {
		var stack []ast.Node
		ast.Inspect(fd.Body, func(n ast.Node) bool {
			if n == nil {
				stack = stack[:len(stack)-1]
				return true
			}
			stack = append(stack, n)
			hit := false
			switch x := n.(type) {
			case *ast.SelectorExpr:
				hit = x.Sel.Name == field && isNamedStruct(p.TypesInfo.TypeOf(x.X), p, tn)
			case *ast.KeyValueExpr:
				// composite literal  T{field: v}
				if id, ok := x.Key.(*ast.Ident); ok && id.Name == field && len(stack) >= 2 {
					if cl, ok := stack[len(stack)-2].(*ast.CompositeLit); ok {
						hit = isNamedStruct(p.TypesInfo.TypeOf(cl), p, tn)
					}
				}
			}
			if hit {
				var st ast.Node = n
				for i := len(stack) - 1; i >= 0; i-- {
					if s, ok := stack[i].(ast.Stmt); ok {
						if _, blk := s.(*ast.BlockStmt); !blk {
							st = s
							break
						}
					}
				}
				txt := exprText(p.Fset, st)
				if _, kv := n.(*ast.KeyValueExpr); kv {
					txt = exprText(p.Fset, n)
					st = nil
				}
				switch s := st.(type) {
				case *ast.IfStmt:
					txt = "if " + exprText(p.Fset, s.Cond)
				case *ast.ForStmt, *ast.RangeStmt, *ast.SwitchStmt, *ast.SelectStmt:
					txt = exprText(p.Fset, n)
				}
				if len(txt) > 160 {
					txt = txt[:160] + "…"
				}
				rows = append(rows, fmt.Sprintf("(%s, %s)", leanStr(name), leanStr(txt)))
			}
			return true
		})
	})
	return fmt.Sprintf("def %s : List (String × String) := [\n  %s]\n", it.Str("name"), strings.Join(rows, ",\n  ")), nil
}
