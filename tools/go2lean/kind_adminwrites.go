package main

// Extractor for nsqadmin (engine E7, property C17): which upstream calls of a handler can change the
// cluster. "State-changing" is defined by *effect*, not by the HTTP method of the nsqadmin route:
//
//	upstreamwrites {"name","cidir","cirecv","clientdir","clientrecv","clientfield","purefields"}
//	    → def <name> : List (String × Bool)
//	  one entry per method of `*ClusterInfo` (key = method name, as it appears in `Eff.upstream`) and one
//	  per method of `*http_api.Client` (key = "client." + name): `true` = the method can send a request
//	  that is not a GET.
//	  * a Client method is read-only iff every `http.NewRequest` in its body has the literal method "GET"
//	    or "HEAD" (there is at least one), and it calls none of `.Post( .PostForm( .Do(` on anything but
//	    the request it built — anything else counts as a write;
//	  * a ClusterInfo method writes iff it calls a writing Client method through `c.<clientfield>.<M>`,
//	    or another method of the receiver that writes (transitive closure), or lets `c.<clientfield>`
//	    escape (any use other than `c.<clientfield>.<M>(…)`), or calls a function-typed field of the
//	    receiver that the spec does not list under "purefields" (the logger).

import (
	"fmt"
	"go/ast"
	"sort"
	"strings"
)

func init() {
	register("upstreamwrites", kindUpstreamWrites)
}

func recvName(fd *ast.FuncDecl) (typ, varName string) {
	if fd.Recv == nil || len(fd.Recv.List) != 1 {
		return "", ""
	}
	t := fd.Recv.List[0].Type
	if s, ok := t.(*ast.StarExpr); ok {
		t = s.X
	}
	if id, ok := t.(*ast.Ident); ok {
		typ = id.Name
	}
	if len(fd.Recv.List[0].Names) == 1 {
		varName = fd.Recv.List[0].Names[0].Name
	}
	return
}

func kindUpstreamWrites(c *Ctx, it Item) (string, error) {
	cp, err := c.Pkg(it.Str("clientdir"))
	if err != nil {
		return "", err
	}
	clientWrites := map[string]bool{}
	for _, f := range cp.Syntax {
		if strings.HasSuffix(cp.Fset.Position(f.Pos()).Filename, "_test.go") {
			continue
		}
		for _, d := range f.Decls {
			fd, ok := d.(*ast.FuncDecl)
			if !ok || fd.Body == nil {
				continue
			}
			if t, _ := recvName(fd); t != it.Str("clientrecv") {
				continue
			}
			nreq, writes := 0, false
			ast.Inspect(fd.Body, func(n ast.Node) bool {
				call, ok := n.(*ast.CallExpr)
				if !ok {
					return true
				}
				fn := exprText(cp.Fset, call.Fun)
				switch {
				case fn == "http.NewRequest" || fn == "http.NewRequestWithContext":
					nreq++
					i := 0
					if fn == "http.NewRequestWithContext" {
						i = 1
					}
					if len(call.Args) <= i {
						writes = true
						break
					}
					m, ok := unq(exprText(cp.Fset, call.Args[i]))
					if !ok || (m != "GET" && m != "HEAD") {
						writes = true
					}
				case strings.HasSuffix(fn, ".Post") || strings.HasSuffix(fn, ".PostForm") || fn == "http.Post" || fn == "http.PostForm":
					writes = true
				}
				return true
			})
			if nreq == 0 {
				// no request built here: a helper; it writes iff it calls a writing sibling — resolved below by name
				writes = writes || strings.Contains(exprText(cp.Fset, fd.Body), ".Do(")
			}
			clientWrites[fd.Name.Name] = writes
		}
	}
	if len(clientWrites) == 0 {
		return "", fmt.Errorf("no method of %s found in %s", it.Str("clientrecv"), it.Str("clientdir"))
	}

	p, err := c.Pkg(it.Str("cidir"))
	if err != nil {
		return "", err
	}
	field := it.Str("clientfield")
	type info struct {
		direct bool
		calls  []string
	}
	methods := map[string]*info{}
	for _, f := range p.Syntax {
		if strings.HasSuffix(p.Fset.Position(f.Pos()).Filename, "_test.go") {
			continue
		}
		for _, d := range f.Decls {
			fd, ok := d.(*ast.FuncDecl)
			if !ok || fd.Body == nil {
				continue
			}
			t, rv := recvName(fd)
			if t != it.Str("cirecv") {
				continue
			}
			in := &info{}
			methods[fd.Name.Name] = in
			if rv == "" {
				continue
			}
			recvObj := p.TypesInfo.Defs[fd.Recv.List[0].Names[0]]
			isRecv := func(e ast.Expr) bool { // the receiver variable itself (not a shadowing local of the same name)
				id, ok := e.(*ast.Ident)
				return ok && id.Name == rv && (recvObj == nil || p.TypesInfo.Uses[id] == recvObj)
			}
			isClient := func(e ast.Expr) bool {
				se, ok := e.(*ast.SelectorExpr)
				return ok && se.Sel.Name == field && isRecv(se.X)
			}
			// every use of c.<field> must be the receiver of a method call
			okUses := map[ast.Node]bool{}
			ast.Inspect(fd.Body, func(n ast.Node) bool {
				call, ok := n.(*ast.CallExpr)
				if !ok {
					return true
				}
				se, ok := call.Fun.(*ast.SelectorExpr)
				if !ok {
					return true
				}
				if isClient(se.X) {
					okUses[se.X] = true
					w, known := clientWrites[se.Sel.Name]
					if !known || w {
						in.direct = true
					}
				} else if isRecv(se.X) {
					in.calls = append(in.calls, se.Sel.Name)
				}
				return true
			})
			ast.Inspect(fd.Body, func(n ast.Node) bool {
				if se, ok := n.(*ast.SelectorExpr); ok && isClient(se) && !okUses[se] {
					in.direct = true // the client escapes
				}
				// the receiver itself handed to somebody else (`go helper(c)`): treat as a write
				if call, ok := n.(*ast.CallExpr); ok {
					for _, a := range call.Args {
						if isRecv(a) {
							in.direct = true
						}
					}
				}
				return true
			})
		}
	}
	if len(methods) == 0 {
		return "", fmt.Errorf("no method of %s found in %s", it.Str("cirecv"), it.Str("cidir"))
	}
	writes := map[string]bool{}
	for n, in := range methods {
		writes[n] = in.direct
	}
	pureField := map[string]bool{}
	for _, f := range it.Strs("purefields") {
		pureField[f] = true
	}
	for changed := true; changed; {
		changed = false
		for n, in := range methods {
			if writes[n] {
				continue
			}
			for _, cal := range in.calls {
				_, isMethod := methods[cal]
				// a callee on the receiver that is not a method (a field of function type) and is not
				// declared harmless in the spec: conservative
				if (isMethod && writes[cal]) || (!isMethod && !pureField[cal]) {
					writes[n] = true
					changed = true
				}
			}
		}
	}
	var names []string
	for n := range writes {
		names = append(names, n)
	}
	sort.Strings(names)
	var cnames []string
	for n := range clientWrites {
		cnames = append(cnames, n)
	}
	sort.Strings(cnames)
	b := func(x bool) string {
		if x {
			return "true"
		}
		return "false"
	}
	var sb strings.Builder
	fmt.Fprintf(&sb, "def %s : List (String × Bool) := [\n", it.Str("name"))
	var rows []string
	for _, n := range names {
		rows = append(rows, fmt.Sprintf("  (%s, %s)", leanStr(n), b(writes[n])))
	}
	for _, n := range cnames {
		rows = append(rows, fmt.Sprintf("  (%s, %s)", leanStr("client."+n), b(clientWrites[n])))
	}
	sb.WriteString(strings.Join(rows, ",\n"))
	sb.WriteString("\n]\n")
	return sb.String(), nil
}
